#!/usr/bin/env python3
"""cov_baseline.py [ID ...]: for each property with a source tie, run its correspondence streams at the widened size
(what a check does when the source tie is broken) against the unchanged tree with Go's block counters and record the
blocks of the property's anchor files that stay unexecuted (by text).  The result, coverage_baseline/<ID>.txt, is
committed: a check with a broken source tie reports unexecuted blocks that are not in it."""
import os, sys, glob
sys.path.insert(0, os.path.join(os.path.dirname(os.path.abspath(__file__)), '..', 'lib'))
import vcheck
ids = sys.argv[1:] or sorted(set(os.path.basename(f)[:3] for f in glob.glob(os.path.join(vcheck.COQ, 'Properties', 'C*src*.v'))))
log = open(os.path.join(vcheck.WORK, 'cov_baseline.log'), 'w')
for pid in ids:
    cfg = vcheck.PROPS.get(pid, {'streams': []})
    if not cfg['streams']:
        continue
    vcheck.correspondence(pid, cfg['streams'], 1, 'quick', log, scale=8)
    missed, n = vcheck.unexercised_blocks(pid, list(vcheck.LAST_CASES), log)
    if missed is None:
        print(pid, 'no coverage data'); continue
    with open(os.path.join(vcheck.ROOT, 'coverage_baseline', pid + '.txt'), 'w') as f:
        for key in sorted(set(k for _, k in missed if k)):
            f.write(key + '\n')
    print('%s: %d of %d blocks of %s unexecuted by %d cases' % (pid, len(missed), n, ', '.join(vcheck.anchor_files(pid)), len(vcheck.LAST_CASES)))
