(** Small library relating shifts / masks / ors to arithmetic. *)
From OtpV Require Import Prelude.
Open Scope N_scope.

Lemma land_shiftl_small a b n : b < 2 ^ n -> N.land (N.shiftl a n) b = 0.
Proof.
  intros Hb. apply N.bits_inj. intros i. rewrite N.land_spec, N.bits_0.
  destruct (N.lt_ge_cases i n) as [Hi|Hi].
  - rewrite N.shiftl_spec_low by exact Hi. reflexivity.
  - destruct (N.eq_dec b 0) as [->|Hb0]; [rewrite N.bits_0; apply andb_false_r|].
    rewrite (N.bits_above_log2 b i); [apply andb_false_r|].
    apply N.log2_lt_pow2 in Hb; [|lia]. lia.
Qed.

Lemma lor_shiftl_add a b n : b < 2 ^ n -> N.lor (N.shiftl a n) b = a * 2 ^ n + b.
Proof.
  intros Hb. rewrite <- N.shiftl_mul_pow2.
  rewrite <- N.lxor_lor by (apply land_shiftl_small; exact Hb).
  symmetry. apply N.add_nocarry_lxor. apply land_shiftl_small. exact Hb.
Qed.

Lemma land_ones_mod a n : N.land a (N.ones n) = a mod 2 ^ n.
Proof. apply N.land_ones. Qed.

Lemma shiftr_div a n : N.shiftr a n = a / 2 ^ n.
Proof. apply N.shiftr_div_pow2. Qed.

Lemma shiftl_mul a n : N.shiftl a n = a * 2 ^ n.
Proof. apply N.shiftl_mul_pow2. Qed.
