//go:build verif

package main

import (
	"sync"

	"github.com/ja7ad/otp"
)

// The library's verification hooks (verif_hooks.go in the repository, same build tag) expose a few
// unexported stages.  They are optional: when the repository no longer builds with the tag (an
// internal helper was renamed, say) the harness is built without it, the stage-level cases answer
// "unavailable", and everything that goes through the public API still runs.
const haveHooks = true

func hkDerive4226(secret []byte, counter uint64, digits int, algo otp.Algorithm) (string, error) {
	return otp.VerifDeriveRFC4226(secret, counter, digits, algo)
}
func hkDerive6287(secret []byte, s otp.Suite, in otp.OCRAInput) (string, error) {
	return otp.VerifDeriveRFC6287(secret, s, in)
}
func hkTruncate(sum []byte, mod uint64) uint32        { return otp.VerifTruncate(sum, mod) }
func hkShortDigit(v uint32, digits int) string         { return otp.VerifShortDigit(v, digits) }
func hkLongDigit(v uint32, digits int) string          { return otp.VerifLongDigit(v, digits) }
func hkFormatDecimal(v uint32, digits int) string      { return otp.VerifFormatDecimal(v, digits) }
func hkPadBytes(in []byte, n int) []byte               { return otp.VerifPadBytes(in, n) }
func hkMod10() []uint64                                { return otp.VerifMod10() }
func hkPools() (*sync.Pool, *sync.Pool)                { return otp.VerifPools() }
func hkKnownSuites() map[string]otp.SuiteConfig        { return otp.VerifKnownSuites() }
func hkParseRawSuite(raw string) (otp.SuiteConfig, error) { return otp.VerifParseRawSuite(raw) }
