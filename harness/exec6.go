package main

func run6(f []string) (string, bool) { return "", false }
