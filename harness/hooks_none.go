//go:build !verif

package main

import (
	"sync"

	"github.com/ja7ad/otp"
)

// Built without the repository's verification hooks: see hooks_verif.go.
const haveHooks = false

func hkDerive4226(secret []byte, counter uint64, digits int, algo otp.Algorithm) (string, error) {
	panic("unavailable")
}
func hkDerive6287(secret []byte, s otp.Suite, in otp.OCRAInput) (string, error) { panic("unavailable") }
func hkTruncate(sum []byte, mod uint64) uint32                                  { panic("unavailable") }
func hkShortDigit(v uint32, digits int) string                                  { panic("unavailable") }
func hkLongDigit(v uint32, digits int) string                                   { panic("unavailable") }
func hkFormatDecimal(v uint32, digits int) string                               { panic("unavailable") }
func hkPadBytes(in []byte, n int) []byte                                        { panic("unavailable") }
func hkMod10() []uint64 {
	return []uint64{0, 10, 100, 1000, 10000, 100000, 1000000, 10000000, 100000000, 1000000000, 10000000000}
}
func hkPools() (*sync.Pool, *sync.Pool) { return nil, nil }

// the registry as the public API shows it
func hkKnownSuites() map[string]otp.SuiteConfig {
	out := map[string]otp.SuiteConfig{}
	for _, n := range otp.ListSuites() {
		out[n] = otp.SuiteConfigFromRaws(n)
	}
	return out
}
func hkParseRawSuite(raw string) (otp.SuiteConfig, error) { panic("unavailable") }
