#!/bin/sh
# srctie_probe.sh <patch-dir>...: apply each patch to a scratch worktree, translate the sources, and report which
# equivalence / source-level property files still compile (developer tool; uses a scratch copy of coq/)
cd "$(dirname "$0")/.."
ROOT=$(pwd)
M=/var/tmp/mrepo
[ -d $M ] || git -C /repo worktree add -q --detach $M HEAD || exit 2
S=/var/tmp/srcprobe; rm -rf $S; mkdir -p $S; cp -r coq $S/coq
for d in "$@"; do
  id=$(basename $d)
  git -C $M checkout -q -- .; git -C $M clean -fdq
  git -C $M apply $ROOT/$d/patch.diff || { echo "$id APPLY-FAILED"; continue; }
  (unset GOFLAGS GOWORK; GOPROXY=off bin/gen_model $M $S/coq/Generated/Src.v $S/gm.json 2>&1 | tail -1)
  (cd $S/coq && timeout 900 make -k -j16 Generated/Src.vo Proofs/SrcEqDecode.vo Proofs/SrcEqDerive.vo Proofs/SrcEqValidate.vo Proofs/SrcEqHotp.vo Proofs/SrcEqTotp.vo Proofs/SrcEqOtp.vo Proofs/SrcEqOcraV.vo Proofs/SrcEqOcra.vo Properties/C14src2.vo Properties/C01src.vo Properties/C02src.vo Properties/C03src.vo Properties/C04src.vo Properties/C05src.vo Properties/C06src.vo Properties/C07src.vo Properties/C10src.vo Properties/C13src.vo Properties/C14src.vo 2>&1 | grep -A2 '^File' | grep -v '^--' | head -9)
  ok=""; for f in C01 C02 C03 C04 C05 C06 C07 C10 C13 C14; do [ $S/coq/Properties/${f}src.vo -nt $S/coq/Generated/Src.v ] && ok="$ok $f"; done
  echo "$id source-tie holds for:$ok"
done
git -C $M checkout -q -- .; git -C $M clean -fdq
rm -rf $S
