(** Model of the provisioning-URL code of otp.go / totp.go / hotp.go (generateOTPURL,
    GenerateTOTPURL, GenerateHOTPURL, ParseOTPAuthURL, DigitsFromStr, AlgorithmFromStr) and of
    the slice of net/url it relies on, transcribed from go1.24.0 src/net/url/url.go:
    shouldEscape, escape, unescape, validEncoded, Values.Encode, URL.EscapedPath, URL.String,
    Parse (getScheme, parseAuthority, parseHost, setPath, setFragment), ParseQuery, Values.Get.
    Not modelled: IPv6 / zone hosts ("[...]") — [url_parse] answers [POut] for them. *)
From Coq Require Import String.
From OtpV Require Import Prelude Tables Errors Decoder Otp Utils Suite.
Open Scope N_scope.

Inductive mode := MPath | MPathSegment | MHost | MUserPassword | MQuery | MFragment.
Definition is_query (m : mode) : bool := match m with MQuery => true | _ => false end.
Definition is_host (m : mode) : bool := match m with MHost => true | _ => false end.

Definition is_alnum (c : N) : bool :=
  ((97 <=? c) && (c <=? 122)) || ((65 <=? c) && (c <=? 90)) || ((48 <=? c) && (c <=? 57)).
Definition mem (c : N) (s : string) : bool := existsb (N.eqb c) (s2b s).

(** func shouldEscape(c byte, mode encoding) bool *)
Definition should_escape (c : N) (m : mode) : bool :=
  if is_alnum c then false
  else if is_host m && mem c "!$&'()*+,;=:[]<>""" then false
  else if mem c "-_.~" then false
  else if mem c "$&+,/:;=?@" then
    match m with
    | MPath => c =? 63
    | MPathSegment => (c =? 47) || (c =? 59) || (c =? 44) || (c =? 63)
    | MUserPassword => (c =? 64) || (c =? 47) || (c =? 63) || (c =? 58)
    | MQuery => true
    | MFragment => false
    | MHost => true
    end
  else match m with
       | MFragment => negb (mem c "!()*")
       | _ => true
       end.

Definition hexu (v : N) : N := if v <? 10 then 48 + v else 55 + v.    (* "0123456789ABCDEF" *)

(** func escape(s string, mode encoding) string *)
Definition escape_byte (m : mode) (c : N) : bytes :=
  if (c =? 32) && is_query m then [43]
  else if should_escape c m then [37; hexu (c / 16); hexu (c mod 16)]
  else [c].
Definition escape (s : bytes) (m : mode) : bytes := flat_map (escape_byte m) s.

Definition ishex (c : N) : bool :=
  ((48 <=? c) && (c <=? 57)) || ((97 <=? c) && (c <=? 102)) || ((65 <=? c) && (c <=? 70)).
Definition unhex (c : N) : N :=
  if (48 <=? c) && (c <=? 57) then c - 48
  else if (97 <=? c) && (c <=? 102) then c - 87
  else if (65 <=? c) && (c <=? 70) then c - 55 else 0.

(** func unescape(s string, mode encoding) (string, error): [None] = EscapeError / InvalidHostError *)
Fixpoint unescape (s : bytes) (m : mode) : option bytes :=
  match s with
  | [] => Some []
  | 37 :: a :: b :: t =>
    if ishex a && ishex b then
      if is_host m && (unhex a <? 8) && negb ((a =? 50) && (b =? 53)) then None
      else match unescape t m with
           | Some r => Some ((unhex a * 16 + unhex b) :: r)
           | None => None
           end
    else None
  | 37 :: _ => None
  | c :: t =>
    if is_host m && (c <? 128) && should_escape c MHost then None
    else match unescape t m with
         | Some r => Some ((if (c =? 43) && is_query m then 32 else c) :: r)
         | None => None
         end
  end.

(** func validEncoded(s string, mode encoding) bool *)
Definition valid_encoded (s : bytes) (m : mode) : bool :=
  forallb (fun c => mem c "!$&'()*+,;=:@[]%" || negb (should_escape c m)) s.

(** ---- url.URL (the fields this library sets or reads) ---- *)
Record url := mkUrl {
  u_scheme : bytes; u_opaque : bytes; u_user : bool; u_host : bytes; u_path : bytes; u_rawpath : bytes;
  u_forcequery : bool; u_rawquery : bytes; u_fragment : bytes
}.

(** func (u *URL) EscapedPath() string *)
Definition escaped_path (u : url) : bytes :=
  let fallback := if beq (u_path u) [42] then [42] else escape (u_path u) MPath in
  match u_rawpath u with
  | [] => fallback
  | rp => if valid_encoded rp MPath then
            match unescape rp MPath with
            | Some p => if beq p (u_path u) then rp else fallback
            | None => fallback
            end
          else fallback
  end.

Definition nonempty (s : bytes) : bool := match s with [] => false | _ => true end.
Definition contains (c : N) (s : bytes) : bool := existsb (N.eqb c) s.

(** func (u *URL) String() string — for URLs without userinfo and OmitHost (the library never
    sets them); the fragment is written unescaped only when it needs no escaping *)
Definition url_string (u : url) : bytes :=
  let head := if nonempty (u_scheme u) then u_scheme u ++ [58] else [] in
  if nonempty (u_opaque u) then
    head ++ u_opaque u ++ (if u_forcequery u || nonempty (u_rawquery u) then 63 :: u_rawquery u else [])
  else
    let auth := if nonempty (u_scheme u) || nonempty (u_host u) then
                  (if nonempty (u_host u) || nonempty (u_path u) then [47; 47] else []) ++ escape (u_host u) MHost
                else [] in
    let path := escaped_path u in
    let slash := match path with c :: _ => if negb (c =? 47) && nonempty (u_host u) then [47] else [] | [] => [] end in
    let buf := head ++ auth ++ slash in
    let dot := match buf with
               | [] => if contains 58 (hd [] (split 47 path)) then [46; 47] else []
               | _ => []
               end in
    buf ++ dot ++ path ++ (if u_forcequery u || nonempty (u_rawquery u) then 63 :: u_rawquery u else [])
        ++ (if nonempty (u_fragment u) then 35 :: escape (u_fragment u) MFragment else []).

(** ---- url.Parse ---- *)
Inductive presult := POk (u : url) | PErr | POut.

(** strings.Cut(s, sep) for a one-byte separator *)
Fixpoint cut_at (sep : N) (s : bytes) (acc : bytes) : bytes * bytes * bool :=
  match s with
  | [] => (frev acc, [], false)
  | c :: t => if c =? sep then (frev acc, t, true) else cut_at sep t (c :: acc)
  end.
Definition cut1 (sep : N) (s : bytes) : bytes * bytes * bool := cut_at sep s [].

Definition is_letter (c : N) : bool := ((97 <=? c) && (c <=? 122)) || ((65 <=? c) && (c <=? 90)).

(** func getScheme(rawURL string) (scheme, path string, err error); [None] = "missing protocol scheme" *)
Fixpoint get_scheme_aux (first : bool) (s acc : bytes) (whole : bytes) : option (bytes * bytes) :=
  match s with
  | [] => Some ([], whole)
  | c :: t =>
    if is_letter c then get_scheme_aux false t (c :: acc) whole
    else if ((48 <=? c) && (c <=? 57)) || (c =? 43) || (c =? 45) || (c =? 46) then
      if first then Some ([], whole) else get_scheme_aux false t (c :: acc) whole
    else if c =? 58 then
      if first then None else Some (frev acc, t)
    else Some ([], whole)
  end.
Definition get_scheme (s : bytes) : option (bytes * bytes) := get_scheme_aux true s [] s.

Definition lower_ascii (c : N) : N := if (65 <=? c) && (c <=? 90) then c + 32 else c.
Definition to_lower (s : bytes) : bytes := map lower_ascii s.

Definition has_ctl (s : bytes) : bool := existsb (fun b => (b <? 32) || (b =? 127)) s.

(** func validOptionalPort(port string) bool *)
Definition valid_optional_port (p : bytes) : bool :=
  match p with
  | [] => true
  | c :: t => (c =? 58) && forallb (fun b => (48 <=? b) && (b <=? 57)) t
  end.

(** index of the last occurrence of [c]: the text before it and from it on *)
Fixpoint last_cut (c : N) (s : bytes) : option (bytes * bytes) :=
  match s with
  | [] => None
  | x :: t =>
    match last_cut c t with
    | Some (a, b) => Some (x :: a, b)
    | None => if x =? c then Some ([], t) else None
    end
  end.

(** func validUserinfo(s string) bool — ranges over runes: any non-ASCII byte is rejected *)
Definition valid_userinfo (s : bytes) : bool :=
  forallb (fun c => is_alnum c || mem c "-._:~!$&'()*+,;=%@") s.

(** func parseHost(host string) (string, error); POut for "[" hosts *)
Definition parse_host (h : bytes) : option (option bytes) :=    (* None = out of model *)
  match h with
  | 91 :: _ => None
  | _ =>
    let port_ok := match last_cut 58 h with
                   | Some (_, after) => valid_optional_port (58 :: after)
                   | None => true
                   end in
    if port_ok then Some (unescape h MHost) else Some None
  end.

(** func parseAuthority(authority string) (user *Userinfo, host string, err error) *)
Definition parse_authority (a : bytes) : option (option (bool * bytes)) :=
  match last_cut 64 a with
  | None => match parse_host a with
            | None => None
            | Some None => Some None
            | Some (Some h) => Some (Some (false, h))
            end
  | Some (userinfo, hostpart) =>
    match parse_host hostpart with
    | None => None
    | Some None => Some None
    | Some (Some h) =>
      if negb (valid_userinfo userinfo) then Some None
      else
        let ok := if contains 58 userinfo then
                    let '(un, pw, _) := cut1 58 userinfo in
                    match unescape un MUserPassword, unescape pw MUserPassword with Some _, Some _ => true | _, _ => false end
                  else match unescape userinfo MUserPassword with Some _ => true | None => false end in
        if ok then Some (Some (true, h)) else Some None
    end
  end.

Definition count_byte (c : N) (s : bytes) : nat := length (filter (N.eqb c) s).
Definition has_prefix (p s : bytes) : bool := is_prefix p s.

(** func parse(rawURL string, viaRequest=false) ( *URL, error) *)
Definition url_parse_nofrag (raw : bytes) : presult :=
  if has_ctl raw then PErr
  else if beq raw [42] then POk (mkUrl [] [] false [] [42] [] false [] [])
  else
    match get_scheme raw with
    | None => PErr
    | Some (scheme, rest) =>
      let scheme := to_lower scheme in
      let '(rest, rawquery, force) :=
          if (match frev rest with 63 :: _ => true | _ => false end) && Nat.eqb (count_byte 63 rest) 1
          then (removelast rest, [], true)
          else let '(a, b, _) := cut1 63 rest in (a, b, false) in
      if negb (has_prefix [47] rest) && nonempty scheme then
        POk (mkUrl scheme rest false [] [] [] force rawquery [])
      else if negb (has_prefix [47] rest) && contains 58 (let '(seg, _, _) := cut1 47 rest in seg) then PErr
      else
        let finish (user : bool) (host rest : bytes) :=
            match unescape rest MPath with
            | None => PErr
            | Some path =>
              let rawpath := if beq rest (escape path MPath) then [] else rest in
              POk (mkUrl scheme [] user host path rawpath force rawquery [])
            end in
        if (nonempty scheme || negb (has_prefix [47; 47; 47] rest)) && has_prefix [47; 47] rest then
          let after := skipn 2 rest in
          let '(authority, rest') :=
              let '(a, b, found) := cut1 47 after in if found then (a, 47 :: b) else (after, []) in
          match parse_authority authority with
          | None => POut
          | Some None => PErr
          | Some (Some (user, host)) => finish user host rest'
          end
        else finish false [] rest
    end.

(** func Parse(rawURL string) ( *URL, error) *)
Definition url_parse (raw : bytes) : presult :=
  let '(u, frag, _) := cut1 35 raw in
  match url_parse_nofrag u with
  | POk r =>
    match frag with
    | [] => POk r
    | _ => match unescape frag MFragment with
           | None => PErr
           | Some f => POk (mkUrl (u_scheme r) (u_opaque r) (u_user r) (u_host r) (u_path r) (u_rawpath r)
                                  (u_forcequery r) (u_rawquery r) f)
           end
    end
  | r => r
  end.

(** ---- url.Values ---- *)
Fixpoint bytes_le (a b : bytes) : bool :=
  match a, b with
  | [], _ => true
  | _ :: _, [] => false
  | x :: a', y :: b' => if x <? y then true else if y <? x then false else bytes_le a' b'
  end.
Fixpoint insert_kv (kv : bytes * bytes) (l : list (bytes * bytes)) : list (bytes * bytes) :=
  match l with
  | [] => [kv]
  | h :: t => if bytes_le (fst kv) (fst h) then kv :: l else h :: insert_kv kv t
  end.
(** Values.Set replaces the value of an existing key *)
Fixpoint values_set (k v : bytes) (l : list (bytes * bytes)) : list (bytes * bytes) :=
  match l with
  | [] => [(k, v)]
  | (k', v') :: t => if beq k' k then (k, v) :: t else (k', v') :: values_set k v t
  end.
(** func (v Values) Encode() string — single-valued keys, sorted by key *)
Fixpoint encode_pairs (first : bool) (l : list (bytes * bytes)) : bytes :=
  match l with
  | [] => []
  | (k, v) :: t => (if first then [] else [38]) ++ escape k MQuery ++ [61] ++ escape v MQuery ++ encode_pairs false t
  end.
Definition values_encode (l : list (bytes * bytes)) : bytes := encode_pairs true (fold_right insert_kv [] l).

(** func parseQuery(m Values, query string): the accepted pairs in order (errors are dropped by
    URL.Query).  One '&'-separated piece: *)
Definition query_piece (pr : bytes) : list (bytes * bytes) :=
  if contains 59 pr then []                                   (* "invalid semicolon separator": skipped *)
  else match pr with
       | [] => []
       | _ =>
         let '(k, v, _) := cut1 61 pr in
         match unescape k MQuery, unescape v MQuery with
         | Some k', Some v' => [(k', v')]
         | _, _ => []
         end
       end.
(** the loop [for query != "" { key, query, _ = strings.Cut(query, "&") ... }] *)
Fixpoint parse_query_aux (q : bytes) (cur : bytes) : list (bytes * bytes) :=
  match q with
  | [] => query_piece (frev cur)
  | c :: t => if c =? 38 then query_piece (frev cur) ++ parse_query_aux t [] else parse_query_aux t (c :: cur)
  end.
Definition parse_query (q : bytes) : list (bytes * bytes) := parse_query_aux q [].
(** func (v Values) Get(key string) string *)
Fixpoint query_get (k : bytes) (l : list (bytes * bytes)) : bytes :=
  match l with
  | [] => []
  | (k', v) :: t => if beq k' k then v else query_get k t
  end.

(** ---- otp.go ---- *)
Record urlparam := mkUrlParam {
  up_issuer : bytes; up_account : bytes; up_period : N; up_secret : bytes; up_digits : N; up_alg : N
}.

(** func (algo Algorithm) String() string — "" outside the map *)
Definition alg_string (a : N) : bytes :=
  match a with 0 => s2b "SHA1" | 1 => s2b "SHA256" | 2 => s2b "SHA512" | _ => [] end.

(** func generateOTPURL(kind string, param URLParam, extraParams map[string]string) ( *url.URL, error) *)
Definition generate_otp_url (kind : bytes) (p : urlparam) (extra : list (bytes * bytes)) : outcome url :=
  if negb (nonempty (up_issuer p)) then Err (ESent ErrIssuerRequired)
  else if negb (nonempty (up_account p)) then Err (ESent ErrAccountNameRequired)
  else
    let digits := if up_digits p =? 0 then 6 else up_digits p in
    if negb (nonempty (up_secret p)) then Err (ESent ErrSecretRequired)
    else
      let label := up_issuer p ++ [58] ++ up_account p in
      let q := values_set (s2b "digits") (dec_of_N digits)
               (values_set (s2b "algorithm") (alg_string (up_alg p))
               (values_set (s2b "issuer") (up_issuer p)
               (values_set (s2b "secret") (up_secret p) []))) in
      let q := fold_left (fun acc kv => values_set (fst kv) (snd kv) acc) extra q in
      Ok (mkUrl (s2b "otpauth") [] false kind (47 :: label) (47 :: escape label MPathSegment) false (values_encode q) []).

(** func GenerateTOTPURL(param URLParam) ( *url.URL, error) *)
Definition generate_totp_url (p : urlparam) : outcome url :=
  let period := match totp_url_zero_period with
                | Some d => if up_period p =? 0 then d else up_period p
                | None => up_period p
                end in
  generate_otp_url (s2b "totp") p [(s2b "period", dec_of_N period)].
(** func GenerateHOTPURL(param URLParam) ( *url.URL, error) *)
Definition generate_hotp_url (p : urlparam) : outcome url :=
  generate_otp_url (s2b "hotp") p [(s2b "counter", s2b "0")].

Definition all_ascii (s : bytes) : bool := forallb (fun c => c <? 128) s.

(** strings.TrimPrefix(p, "/") *)
Definition strip_slash (p : bytes) : bytes := match p with 47 :: t => t | q => q end.

(** func ParseOTPAuthURL(u *url.URL) ( *URLParam, error) *)
Definition parse_otpauth_url (u : option url) : outcome urlparam :=
  match u with
  | None => Err (EFmt T_url_nil [] [])
  | Some u =>
    if negb (beq (u_scheme u) (s2b "otpauth")) then Err (EFmt T_url_scheme [] [u_scheme u])
    else
      let otp_type := to_lower (u_host u) in
      if negb (beq otp_type (s2b "totp")) && negb (beq otp_type (s2b "hotp"))
      then (if all_ascii (u_host u) then Err (EFmt T_url_type [] [otp_type]) else Err (EStd 20 []))
      else
        let path := strip_slash (u_path u) in
        let '(issuer, account, found) := cut1 58 path in
        if negb found then Err (EFmt T_url_label [] [])
        else
          let query := parse_query (u_rawquery u) in
          let digits_str := query_get (s2b "digits") query in
          let digits :=
              match digits_str with
              | [] => Some 6
              | _ => match atoi digits_str with
                     | Some d => if (0 <=? d)%Z && (d <=? 255)%Z then Some (Z.to_N d) else None
                     | None => None
                     end
              end in
          match digits with
          | None => Err (EFmt T_url_digits [] [digits_str])
          | Some digits =>
            let alg_str := query_get (s2b "algorithm") query in
            let alg :=
                match alg_str with
                | [] => Some 0
                | _ => let au := to_upper_u alg_str in
                       if beq au (s2b "SHA1") then Some 0 else if beq au (s2b "SHA256") then Some 1
                       else if beq au (s2b "SHA512") then Some 2 else None
                end in
            match alg with
            | None => Err (EFmt T_url_alg [] [alg_str])
            | Some alg =>
              let period_str := query_get (s2b "period") query in
              let period :=
                  match period_str with
                  | [] => Some 30
                  | _ => match atoi period_str with
                         | Some p => if (0 <=? p)%Z then Some (Z.to_N p) else None
                         | None => None
                         end
                  end in
              match period with
              | None => Err (EFmt T_url_period [] [period_str])
              | Some period => Ok (mkUrlParam issuer account period (query_get (s2b "secret") query) digits alg)
              end
            end
          end
  end.

(** func DigitsFromStr / AlgorithmFromStr *)
Definition digits_from_str (s : bytes) : N :=
  if beq s (s2b "6") then 6 else if beq s (s2b "8") then 8 else if beq s (s2b "9") then 9
  else if beq s (s2b "10") then 10 else 6.
Definition algorithm_from_str (s : bytes) : N :=
  if beq s (s2b "SHA1") then 0 else if beq s (s2b "SHA256") then 1 else if beq s (s2b "SHA512") then 2 else 0.
