(** C02 — TOTP code = HOTP code at floor(unix time / period), with consistent defaults.
    The model of GenerateTOTP takes only the Unix second count of the instant: that nothing
    else about a time.Time (nanoseconds, location, monotonic reading) matters is therefore part
    of the model's signature, and is what the correspondence check confirms against real
    time.Time values. *)
From Coq Require Import String.
From OtpV Require Import Prelude Sha Tables Decoder Derive Otp Rfc4226 DeriveProofs OtpProofs Errors.
Open Scope N_scope.

Theorem C02_is_hotp : forall secret unix p,
  (0 <= unix < 2 ^ 62)%Z ->
  generate_totp secret unix (Some p) = generate_hotp secret (Z.to_N unix / eff30 (p_period p)) (Some p).
Proof. exact (generate_totp_is_hotp hmac hmac_length hmac_wf). Qed.
Print Assumptions C02_is_hotp.

(** hence, with C01, the RFC 6238 value *)
Theorem C02_value : forall secret key unix d per sk a,
  decode_secret secret = Ok key -> 1 <= d <= 10 -> (0 <= unix < 2 ^ 62)%Z ->
  generate_totp secret unix (Some (mkParam d per sk (N_of_alg a)))
  = Ok (hotp_value hmac a key (Z.to_N unix / eff30 per) (N.to_nat d)).
Proof.
  intros secret key unix d per sk a Hk Hd Hu.
  rewrite C02_is_hotp by exact Hu. apply (generate_hotp_value hmac hmac_length hmac_wf); assumption.
Qed.
Print Assumptions C02_value.

(** constant inside a time step *)
Theorem C02_same_step : forall secret u u' p,
  (0 <= u < 2 ^ 62)%Z -> (0 <= u' < 2 ^ 62)%Z ->
  Z.to_N u / eff30 (p_period p) = Z.to_N u' / eff30 (p_period p) ->
  generate_totp secret u (Some p) = generate_totp secret u' (Some p).
Proof. exact (generate_totp_same_step hmac hmac_length hmac_wf). Qed.
Print Assumptions C02_same_step.

(** the step changes exactly at multiples of the period *)
Theorem C02_boundary : forall k per, 0 < per -> 0 < k ->
  (k * per - 1) / per = k - 1 /\ (k * per) / per = k.
Proof. exact (step_boundary hmac hmac_length hmac_wf). Qed.
Print Assumptions C02_boundary.

(** absent parameters mean SHA-1, 6 digits, 30 s; a zero period means 30 s in generation,
    validation and provisioning URLs alike (the three defaults are regenerated from totp.go) *)
Theorem C02_nil_param : forall secret unix,
  generate_totp secret unix None = generate_totp secret unix (Some (mkParam 6 30 0 0)).
Proof. exact (generate_totp_nil hmac hmac_length hmac_wf). Qed.
Print Assumptions C02_nil_param.

Theorem C02_zero_period_consistent :
  totp_gen_zero_period = Some 30 /\ totp_val_zero_period = Some 30 /\ totp_url_zero_period = Some 30.
Proof. exact zero_periods_are. Qed.
Print Assumptions C02_zero_period_consistent.

Theorem C02_zero_period : forall secret unix d sk a,
  generate_totp secret unix (Some (mkParam d 0 sk a)) = generate_totp secret unix (Some (mkParam d 30 sk a)).
Proof. reflexivity. Qed.
Print Assumptions C02_zero_period.

(** non-vacuity: RFC 6238 appendix B, T = 59 and T = 1111111109, 8 digits, SHA-1 *)
Example C02_rfc_vector :
  generate_totp (s2b "GEZDGNBVGY3TQOJQGEZDGNBVGY3TQOJQ"%string) 59 (Some (mkParam 8 30 0 0)) = Ok (s2b "94287082"%string) /\
  generate_totp (s2b "GEZDGNBVGY3TQOJQGEZDGNBVGY3TQOJQ"%string) 1111111109 (Some (mkParam 8 30 0 0)) = Ok (s2b "07081804"%string).
Proof. vm_compute. repeat split. Qed.
