// verifharness: generates structured test cases (one per line) and executes them against the
// implementation in /repo (built with -tags verif).  `gen <stream> <seed> <n>` prints cases,
// `exec` reads cases on stdin and prints one canonical outcome per line.
package main

import (
	"bufio"
	"fmt"
	"os"
	"strconv"
)

func main() {
	if len(os.Args) < 2 {
		fmt.Fprintln(os.Stderr, "usage: harness gen <stream> <seed> <n> | exec")
		os.Exit(2)
	}
	w := bufio.NewWriterSize(os.Stdout, 1<<20)
	defer w.Flush()
	switch os.Args[1] {
	case "gen":
		seed, _ := strconv.ParseUint(os.Args[3], 10, 64)
		n, _ := strconv.Atoi(os.Args[4])
		g, ok := streams[os.Args[2]]
		if !ok {
			fmt.Fprintln(os.Stderr, "unknown stream", os.Args[2])
			os.Exit(2)
		}
		r := &rng{s: seed*0x9E3779B97F4A7C15 + 0x1234567}
		emit := func(s string) { fmt.Fprintln(w, s) }
		g(r, n, emit)
	case "exec":
		sc := bufio.NewScanner(os.Stdin)
		sc.Buffer(make([]byte, 1<<20), 1<<26)
		for sc.Scan() {
			fmt.Fprintln(w, run(sc.Text()))
		}
	default:
		if !extraCommand(os.Args[1:], w) {
			fmt.Fprintln(os.Stderr, "unknown command", os.Args[1])
			os.Exit(2)
		}
	}
}
