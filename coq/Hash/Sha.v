(** Executable SHA-1 / SHA-256 / SHA-512 (FIPS 180-4) and HMAC (RFC 2104) over [list N]
    bytes.  Word arithmetic uses masks, not division, so that [vm_compute] and the extracted
    OCaml run at a few milliseconds per HMAC.  The only facts *proved* about these functions
    are their output lengths and byte-range; their agreement with Go's crypto packages is
    checked differentially on every run (ops sha/hmac of the harness). *)
From OtpV Require Import Prelude Consts.
Open Scope N_scope.

Definition mask32 : N := 4294967295.
Definition mask64 : N := 18446744073709551615.

Definition be_word (bs : bytes) : N := fold_left (fun acc b => N.lor (N.shiftl acc 8) b) bs 0.

Definition byte_at (w : N) (sh : N) : N := N.land (N.shiftr w sh) 255.
Definition word_be4 (w : N) : bytes := [byte_at w 24; byte_at w 16; byte_at w 8; byte_at w 0].
Definition word_be8 (w : N) : bytes :=
  [byte_at w 56; byte_at w 48; byte_at w 40; byte_at w 32; byte_at w 24; byte_at w 16; byte_at w 8; byte_at w 0].

Lemma byte_at_lt w sh : byte_at w sh < 256.
Proof.
  unfold byte_at. change 255 with (N.ones 8). rewrite N.land_ones.
  apply N.mod_lt. discriminate.
Qed.

(** split a list into consecutive groups of [n] elements (fuel = length) *)
Fixpoint groups_fuel {A} (fuel : nat) (n : nat) (l : list A) : list (list A) :=
  match fuel with
  | O => []
  | S f => match l with
           | [] => []
           | _ => firstn n l :: groups_fuel f n (skipn n l)
           end
  end.
Definition groups {A} (n : nat) (l : list A) : list (list A) := groups_fuel (length l) n l.

(** Merkle–Damgård padding: 0x80, zeros, length in bits as [lenbytes]-byte big endian,
    total a multiple of [block]. *)
Definition md_pad (block lenbytes : nat) (msg : bytes) : bytes :=
  let l := length msg in
  let used := Nat.modulo (l + 1 + lenbytes) block in
  let z := Nat.modulo (block - used) block in
  let bits := N.of_nat l * 8 in
  msg ++ [128] ++ repeat 0 z ++
      map (fun i => byte_at bits (8 * N.of_nat i)) (rev (seq 0 lenbytes)).

(** ---------------- 32-bit ---------------- *)
Definition add32 (x y : N) : N := N.land (x + y) mask32.
Definition rotl32 (n : N) (x : N) : N :=
  N.lor (N.land (N.shiftl x n) mask32) (N.shiftr x (32 - n)).
Definition rotr32 (n : N) (x : N) : N := rotl32 (32 - n) x.
Definition not32 (x : N) : N := N.lxor x mask32.

(** message schedule kept newest-first; [nth i rev_w] is W[t-1-i] *)
Fixpoint extend (fuel : nat) (f : list N -> N) (rev_w : list N) : list N :=
  match fuel with
  | O => rev_w
  | S k => extend k f (f rev_w :: rev_w)
  end.

Definition nthN (i : nat) (l : list N) : N := nth i l 0.

(** --- SHA-256 --- *)
Definition ssig0_256 x := N.lxor (N.lxor (rotr32 7 x) (rotr32 18 x)) (N.shiftr x 3).
Definition ssig1_256 x := N.lxor (N.lxor (rotr32 17 x) (rotr32 19 x)) (N.shiftr x 10).
Definition bsig0_256 x := N.lxor (N.lxor (rotr32 2 x) (rotr32 13 x)) (rotr32 22 x).
Definition bsig1_256 x := N.lxor (N.lxor (rotr32 6 x) (rotr32 11 x)) (rotr32 25 x).
Definition ch32 x y z := N.lxor (N.land x y) (N.land (not32 x) z).
Definition maj x y z := N.lxor (N.lxor (N.land x y) (N.land x z)) (N.land y z).

Definition sched256 (rev_w : list N) : N :=
  add32 (add32 (ssig1_256 (nthN 1 rev_w)) (nthN 6 rev_w))
        (add32 (ssig0_256 (nthN 14 rev_w)) (nthN 15 rev_w)).

Record st8 := mk8 { s_a : N; s_b : N; s_c : N; s_d : N; s_e : N; s_f : N; s_g : N; s_h : N }.

Definition round256 (s : st8) (kw : N * N) : st8 :=
  let '(mk8 a b c d e f g h) := s in
  let t1 := add32 (add32 (add32 h (bsig1_256 e)) (add32 (ch32 e f g) (fst kw))) (snd kw) in
  let t2 := add32 (bsig0_256 a) (maj a b c) in
  mk8 (add32 t1 t2) a b c (add32 d t1) e f g.

Definition st8_of_list (l : list N) : st8 :=
  mk8 (nthN 0 l) (nthN 1 l) (nthN 2 l) (nthN 3 l) (nthN 4 l) (nthN 5 l) (nthN 6 l) (nthN 7 l).

Definition add_st8 (add : N -> N -> N) (x y : st8) : st8 :=
  mk8 (add (s_a x) (s_a y)) (add (s_b x) (s_b y)) (add (s_c x) (s_c y)) (add (s_d x) (s_d y))
      (add (s_e x) (s_e y)) (add (s_f x) (s_f y)) (add (s_g x) (s_g y)) (add (s_h x) (s_h y)).

Definition compress256 (s : st8) (block : bytes) : st8 :=
  let w0 := map be_word (groups 4 block) in
  let w := rev (extend 48 sched256 (rev w0)) in
  add_st8 add32 s (fold_left round256 (combine K256 w) s).

Definition sha256 (msg : bytes) : bytes :=
  let s := fold_left compress256 (groups 64 (md_pad 64 8 msg)) (st8_of_list H256) in
  word_be4 (s_a s) ++ word_be4 (s_b s) ++ word_be4 (s_c s) ++ word_be4 (s_d s) ++
  word_be4 (s_e s) ++ word_be4 (s_f s) ++ word_be4 (s_g s) ++ word_be4 (s_h s).

(** --- SHA-512 --- *)
Definition add64 (x y : N) : N := N.land (x + y) mask64.
Definition rotr64 (n : N) (x : N) : N :=
  N.lor (N.shiftr x n) (N.land (N.shiftl x (64 - n)) mask64).
Definition not64 (x : N) : N := N.lxor x mask64.
Definition ch64 x y z := N.lxor (N.land x y) (N.land (not64 x) z).
Definition ssig0_512 x := N.lxor (N.lxor (rotr64 1 x) (rotr64 8 x)) (N.shiftr x 7).
Definition ssig1_512 x := N.lxor (N.lxor (rotr64 19 x) (rotr64 61 x)) (N.shiftr x 6).
Definition bsig0_512 x := N.lxor (N.lxor (rotr64 28 x) (rotr64 34 x)) (rotr64 39 x).
Definition bsig1_512 x := N.lxor (N.lxor (rotr64 14 x) (rotr64 18 x)) (rotr64 41 x).

Definition sched512 (rev_w : list N) : N :=
  add64 (add64 (ssig1_512 (nthN 1 rev_w)) (nthN 6 rev_w))
        (add64 (ssig0_512 (nthN 14 rev_w)) (nthN 15 rev_w)).

Definition round512 (s : st8) (kw : N * N) : st8 :=
  let '(mk8 a b c d e f g h) := s in
  let t1 := add64 (add64 (add64 h (bsig1_512 e)) (add64 (ch64 e f g) (fst kw))) (snd kw) in
  let t2 := add64 (bsig0_512 a) (maj a b c) in
  mk8 (add64 t1 t2) a b c (add64 d t1) e f g.

Definition compress512 (s : st8) (block : bytes) : st8 :=
  let w0 := map be_word (groups 8 block) in
  let w := rev (extend 64 sched512 (rev w0)) in
  add_st8 add64 s (fold_left round512 (combine K512 w) s).

Definition sha512 (msg : bytes) : bytes :=
  let s := fold_left compress512 (groups 128 (md_pad 128 16 msg)) (st8_of_list H512) in
  word_be8 (s_a s) ++ word_be8 (s_b s) ++ word_be8 (s_c s) ++ word_be8 (s_d s) ++
  word_be8 (s_e s) ++ word_be8 (s_f s) ++ word_be8 (s_g s) ++ word_be8 (s_h s).

(** --- SHA-1 --- *)
Definition sched1 (rev_w : list N) : N :=
  rotl32 1 (N.lxor (N.lxor (nthN 2 rev_w) (nthN 7 rev_w)) (N.lxor (nthN 13 rev_w) (nthN 15 rev_w))).

Record st5 := mk5 { t_a : N; t_b : N; t_c : N; t_d : N; t_e : N }.

Definition f1 (t : nat) (b c d : N) : N :=
  if Nat.ltb t 20 then ch32 b c d
  else if Nat.ltb t 40 then N.lxor (N.lxor b c) d
  else if Nat.ltb t 60 then maj b c d
  else N.lxor (N.lxor b c) d.
Definition k1 (t : nat) : N :=
  if Nat.ltb t 20 then 1518500249
  else if Nat.ltb t 40 then 1859775393
  else if Nat.ltb t 60 then 2400959708
  else 3395469782.

Definition round1 (s : st5) (tw : nat * N) : st5 :=
  let '(mk5 a b c d e) := s in
  let t := fst tw in
  let tmp := add32 (add32 (add32 (rotl32 5 a) (f1 t b c d)) (add32 e (k1 t))) (snd tw) in
  mk5 tmp a (rotl32 30 b) c d.

Definition compress1 (s : st5) (block : bytes) : st5 :=
  let w0 := map be_word (groups 4 block) in
  let w := rev (extend 64 sched1 (rev w0)) in
  let r := fold_left round1 (combine (seq 0 80) w) s in
  mk5 (add32 (t_a s) (t_a r)) (add32 (t_b s) (t_b r)) (add32 (t_c s) (t_c r))
      (add32 (t_d s) (t_d r)) (add32 (t_e s) (t_e r)).

Definition sha1 (msg : bytes) : bytes :=
  let s := fold_left compress1 (groups 64 (md_pad 64 8 msg))
                     (mk5 (nthN 0 H1) (nthN 1 H1) (nthN 2 H1) (nthN 3 H1) (nthN 4 H1)) in
  word_be4 (t_a s) ++ word_be4 (t_b s) ++ word_be4 (t_c s) ++ word_be4 (t_d s) ++ word_be4 (t_e s).

(** ---------------- HMAC ---------------- *)
Inductive alg := SHA1 | SHA256 | SHA512.

Definition hash (a : alg) : bytes -> bytes :=
  match a with SHA1 => sha1 | SHA256 => sha256 | SHA512 => sha512 end.
Definition blocklen (a : alg) : nat := match a with SHA512 => 128%nat | _ => 64%nat end.
Definition hlen (a : alg) : nat := match a with SHA1 => 20%nat | SHA256 => 32%nat | SHA512 => 64%nat end.

Definition hmac (a : alg) (key msg : bytes) : bytes :=
  let k0 := if Nat.ltb (blocklen a) (length key) then hash a key else key in
  let k := k0 ++ repeat 0 (blocklen a - length k0) in
  hash a (map (fun b => N.lxor b 92) k ++ hash a (map (fun b => N.lxor b 54) k ++ msg)).

(** ---------------- the proved facts ---------------- *)
Lemma sha1_length m : length (sha1 m) = 20%nat.   Proof. reflexivity. Qed.
Lemma sha256_length m : length (sha256 m) = 32%nat. Proof. reflexivity. Qed.
Lemma sha512_length m : length (sha512 m) = 64%nat. Proof. reflexivity. Qed.

Lemma hash_length a m : length (hash a m) = hlen a.
Proof. destruct a; [apply sha1_length|apply sha256_length|apply sha512_length]. Qed.

Lemma hmac_length a k m : length (hmac a k m) = hlen a.
Proof. unfold hmac. apply hash_length. Qed.

Lemma word_be4_wf w : wfb (word_be4 w).
Proof. unfold word_be4. repeat (apply wfb_cons; [apply byte_at_lt|]). apply wfb_nil. Qed.
Lemma word_be8_wf w : wfb (word_be8 w).
Proof. unfold word_be8. repeat (apply wfb_cons; [apply byte_at_lt|]). apply wfb_nil. Qed.

Lemma hash_wf a m : wfb (hash a m).
Proof.
  destruct a; cbv [hash sha1 sha256 sha512];
    repeat (apply wfb_app; [first [apply word_be4_wf|apply word_be8_wf]|]);
    first [apply word_be4_wf|apply word_be8_wf].
Qed.

Lemma hmac_wf a k m : wfb (hmac a k m).
Proof. unfold hmac. apply hash_wf. Qed.
