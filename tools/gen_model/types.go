package main

import (
	"fmt"
	"go/ast"
	"go/types"
	"strings"
)

// kinds of translated Go types
type kind int

const (
	kU8 kind = iota
	kU32
	kU64 // uint64, uint, uintptr (amd64 and js/wasm: 64 bits)
	kI64 // int, int64
	kI32
	kBool
	kBytes // string, []byte, [n]byte, *[n]byte
	kErr
	kParamPtr
	kParam
	kSuite // SuiteConfig, RawSuite, Suite
	kInput
	kTime
	kHash
	kPoolEntry // *hashPool
	kFunc
	kUnit
	kStrList   // []string
	kSuitePtr  // *SuiteConfig (an in/out parameter)
	kHashCtor  // func() hash.Hash: which hash it constructs, nil when unset
	kBig       // *big.Int: its value
	kURLPtr    // *url.URL
	kUParam    // URLParam
	kUParamPtr // *URLParam
	kPairs     // url.Values, map[string]string: association lists
	kJsVal     // js.Value
	kJsList    // []js.Value
	kJsType    // js.Type: its name
	kAny       // any: what a callback hands to JavaScript
	kSuiteI    // the interface Suite: nil, or one of its two implementations (both are their configuration)
	kCtx       // *fasthttp.RequestCtx (REST mode): the request and the response being built, an in/out parameter
	kLocal     // a struct of the translated package (REST mode): a generated record
	kLocalPtr  // pointer to one: an option
	kDetails   // map[string]any: the details of an error answer (dropped)
	kOther
)

func (t *tr) kindOf(ty types.Type) kind {
	switch u := ty.(type) {
	case *types.Named:
		n := u.Obj().Name()
		pk := ""
		if u.Obj().Pkg() != nil {
			pk = u.Obj().Pkg().Path()
		}
		if ln, _ := t.localStruct(u); ln != nil {
			return kLocal
		}
		if pk == libPath && t.pkg.PkgPath != libPath {
			pk = t.pkg.PkgPath // the library's types, seen from the binding or the REST layer
		}
		switch {
		case pk == "time" && n == "Time":
			return kTime
		case pk == "hash" && n == "Hash":
			return kHash
		case pk == t.pkg.PkgPath && n == "Param":
			return kParam
		case pk == t.pkg.PkgPath && n == "Suite":
			return kSuiteI
		case pk == t.pkg.PkgPath && (n == "SuiteConfig" || n == "RawSuite"):
			return kSuite
		case pk == t.pkg.PkgPath && n == "OCRAInput":
			return kInput
		case pk == t.pkg.PkgPath && n == "URLParam":
			return kUParam
		case pk == "net/url" && n == "Values":
			return kPairs
		case pk == "syscall/js" && n == "Value":
			return kJsVal
		case pk == "syscall/js" && n == "Type":
			return kJsType
		case pk == "github.com/ja7ad/otp" && n == "URLParam":
			return kUParam
		case pk == "github.com/ja7ad/otp" && (n == "Digits" || n == "Algorithm"):
			return kU8
		case n == "error" && u.Obj().Pkg() == nil:
			return kErr
		}
		return t.kindOf(u.Underlying())
	case *types.Alias:
		return t.kindOf(types.Unalias(u))
	case *types.Basic:
		switch u.Kind() {
		case types.Uint8:
			return kU8
		case types.Uint32:
			return kU32
		case types.Uint64, types.Uint, types.Uintptr:
			return kU64
		case types.Int, types.Int64, types.UntypedInt, types.UntypedRune:
			return kI64
		case types.Int32:
			return kI32
		case types.Bool, types.UntypedBool:
			return kBool
		case types.String, types.UntypedString:
			return kBytes
		case types.UntypedNil:
			return kOther
		}
	case *types.Slice:
		if b, ok := u.Elem().Underlying().(*types.Basic); ok && b.Kind() == types.Uint8 {
			return kBytes
		}
		if b, ok := u.Elem().Underlying().(*types.Basic); ok && b.Kind() == types.String {
			return kStrList
		}
		if n, ok := u.Elem().(*types.Named); ok && n.Obj().Name() == "Value" && n.Obj().Pkg() != nil && n.Obj().Pkg().Path() == "syscall/js" {
			return kJsList
		}
	case *types.Array:
		if b, ok := u.Elem().Underlying().(*types.Basic); ok && b.Kind() == types.Uint8 {
			return kBytes
		}
	case *types.Pointer:
		if t.restMode && isRequestCtx(u) {
			return kCtx
		}
		if ln, _ := t.localStruct(u.Elem()); ln != nil {
			return kLocalPtr
		}
		if a, ok := u.Elem().Underlying().(*types.Array); ok {
			if b, ok := a.Elem().Underlying().(*types.Basic); ok && b.Kind() == types.Uint8 {
				return kBytes
			}
		}
		if s, ok := u.Elem().Underlying().(*types.Slice); ok {
			if b, ok := s.Elem().Underlying().(*types.Basic); ok && b.Kind() == types.Uint8 {
				return kBytes
			}
		}
		if n, ok := u.Elem().(*types.Named); ok {
			if n.Obj().Name() == "Int" && n.Obj().Pkg() != nil && n.Obj().Pkg().Path() == "math/big" {
				return kBig
			}
			if n.Obj().Name() == "Param" {
				return kParamPtr
			}
			if n.Obj().Name() == "URLParam" {
				return kUParamPtr
			}
			if n.Obj().Name() == "URL" && n.Obj().Pkg() != nil && n.Obj().Pkg().Path() == "net/url" {
				return kURLPtr
			}
			if n.Obj().Name() == "hashPool" {
				return kPoolEntry
			}
			if n.Obj().Name() == "SuiteConfig" {
				return kSuitePtr
			}
		}
	case *types.Map:
		if t.restMode && isDetails(u) {
			return kDetails
		}
		if k, ok := u.Key().Underlying().(*types.Basic); ok && k.Kind() == types.String {
			if v, ok := u.Elem().Underlying().(*types.Basic); ok && v.Kind() == types.String {
				return kPairs
			}
		}
	case *types.Signature:
		if u.Params().Len() == 0 && u.Results().Len() == 1 {
			if n, ok := u.Results().At(0).Type().(*types.Named); ok && n.Obj().Name() == "Hash" && n.Obj().Pkg() != nil && n.Obj().Pkg().Path() == "hash" {
				return kHashCtor
			}
		}
		return kFunc
	case *types.Interface:
		if u.NumMethods() == 1 && u.Method(0).Name() == "Error" {
			return kErr
		}
		if u.NumMethods() == 0 {
			return kAny
		}
	case *types.Tuple:
		if u.Len() == 0 {
			return kUnit
		}
	}
	return kOther
}

func isUnsigned(k kind) bool { return k == kU8 || k == kU32 || k == kU64 }
func isInt(k kind) bool      { return k == kU8 || k == kU32 || k == kU64 || k == kI64 || k == kI32 }

func bitsOf(k kind) int {
	switch k {
	case kU8:
		return 8
	case kU32, kI32:
		return 32
	}
	return 64
}

// Coq type of a Go type
func (t *tr) coqType(n ast.Node, ty types.Type) string {
	switch t.kindOf(ty) {
	case kU8, kU32, kU64:
		return "N"
	case kI64, kI32, kBig:
		return "Z"
	case kBool:
		return "bool"
	case kBytes:
		return "bytes"
	case kErr:
		if t.mainMode {
			return "(option bytes)"
		}
		return "(option err)"
	case kJsVal:
		return "jsval"
	case kJsList:
		return "(list jsval)"
	case kJsType:
		return "bytes"
	case kAny:
		return "wres"
	case kParamPtr:
		return "(option param)"
	case kParam:
		return "param"
	case kSuite, kSuitePtr:
		return "suite_cfg"
	case kSuiteI:
		return "(option suite_cfg)"
	case kStrList:
		return "(list bytes)"
	case kInput:
		return "ocra_input"
	case kTime:
		return "Z"
	case kHash:
		return "hstate"
	case kPoolEntry:
		return "alg"
	case kHashCtor:
		return "(option alg)"
	case kURLPtr:
		return "(option url)"
	case kUParam:
		return "urlparam"
	case kUParamPtr:
		return "(option urlparam)"
	case kPairs:
		return "(list (bytes * bytes))"
	case kUnit, kDetails:
		return "unit"
	case kCtx:
		return "rctx"
	case kLocal:
		return "t_" + ty.(*types.Named).Obj().Name()
	case kLocalPtr:
		return "(option t_" + derefT(ty).(*types.Named).Obj().Name() + ")"
	case kFunc:
		sig := ty.Underlying().(*types.Signature)
		if sig.Params().Len() != 0 {
			t.fail(n, "function value with parameters: %s", ty)
		}
		return "(unit -> res " + t.tupleType(n, sig.Results()) + ")"
	}
	t.fail(n, "type outside the translated fragment: %s", ty)
	return ""
}

func (t *tr) tupleType(n ast.Node, tu *types.Tuple) string {
	if tu.Len() == 0 {
		return "unit"
	}
	var parts []string
	for i := 0; i < tu.Len(); i++ {
		parts = append(parts, t.coqType(n, tu.At(i).Type()))
	}
	if len(parts) == 1 {
		return parts[0]
	}
	return "(" + strings.Join(parts, " * ") + ")"
}

// zero value of a type
func (t *tr) zero(n ast.Node, ty types.Type) string {
	switch t.kindOf(ty) {
	case kU8, kU32, kU64:
		return "0%N"
	case kI64, kI32, kTime:
		return "0%Z"
	case kBool:
		return "false"
	case kBytes:
		if a, ok := ty.Underlying().(*types.Array); ok {
			return fmt.Sprintf("(repeat 0%%N %d)", a.Len())
		}
		return "[]"
	case kErr, kParamPtr, kHashCtor, kURLPtr, kUParamPtr, kSuiteI, kLocalPtr:
		return "None"
	case kDetails:
		return "tt"
	case kLocal:
		return "zero_" + ty.(*types.Named).Obj().Name()
	case kStrList, kPairs:
		return "[]"
	case kUParam:
		return "(mkUrlParam [] [] 0 [] 0 0)"
	case kParam:
		return "(mkParam 0 0 0 0)"
	case kSuite:
		return "(mkSuite [] 0 0 0 false false false false false 0 0)"
	case kInput:
		return "(mkInput [] [] [] [] [])"
	}
	t.fail(n, "no zero value for %s", ty)
	return ""
}

// struct fields -> projections of the model's records; the Go declaration is checked against this table
var fieldProj = map[string][]string{
	"Param":       {"Digits:p_digits", "Period:p_period", "Skew:p_skew", "Algorithm:p_alg"},
	"SuiteConfig": {"Raw:sc_raw", "Hash:sc_hash", "Digits:sc_digits", "Challenge:sc_challenge", "IncludeCounter:sc_c", "IncludeChallenge:sc_q", "IncludePassword:sc_p", "IncludeSession:sc_s", "IncludeTimestamp:sc_t", "PasswordHash:sc_pwhash", "TimeStep:sc_timestep"},
	"URLParam":    {"Issuer:up_issuer", "AccountName:up_account", "Period:up_period", "Secret:up_secret", "Digits:up_digits", "Algorithm:up_alg"},
	"OCRAInput":   {"Counter:oi_counter", "Challenge:oi_challenge", "Password:oi_password", "SessionInfo:oi_session", "Timestamp:oi_timestamp"},
}

// the model's record for Param has the fields in the order Digits, Period, Skew, Algorithm; the order of the
// Go declaration must be the same for positional constructors to mean the same thing
func (t *tr) checkStructs() string {
	scope := t.pkg.Types.Scope()
	if t.pkg.PkgPath != libPath {
		if lib := t.pkg.Imports[libPath]; lib != nil {
			scope = lib.Types.Scope()
		}
	}
	for name, fields := range fieldProj {
		obj := scope.Lookup(name)
		if obj == nil {
			return "struct " + name + " not found"
		}
		st, ok := obj.Type().Underlying().(*types.Struct)
		if !ok || st.NumFields() != len(fields) {
			return "struct " + name + " has another shape than the model's record"
		}
		for i, f := range fields {
			if st.Field(i).Name() != strings.Split(f, ":")[0] {
				return "struct " + name + ": field " + st.Field(i).Name() + " is not where the model's record has it"
			}
		}
	}
	return ""
}

func (t *tr) proj(n ast.Node, structName, field string) string {
	for _, f := range fieldProj[structName] {
		p := strings.Split(f, ":")
		if p[0] == field {
			return p[1]
		}
	}
	t.fail(n, "field %s.%s has no projection in the model's records", structName, field)
	return ""
}

// net/url.URL as the model's record: field -> projection, in the order of the constructor mkUrl, with the default of
// a field that a composite literal leaves out (fields of the Go struct that the model does not have are refused)
var urlFields = []string{"Scheme:u_scheme:[]", "Opaque:u_opaque:[]", "User:u_user:false", "Host:u_host:[]", "Path:u_path:[]", "RawPath:u_rawpath:[]",
	"ForceQuery:u_forcequery:false", "RawQuery:u_rawquery:[]", "Fragment:u_fragment:[]"}
