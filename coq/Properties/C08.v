(** C08 — random secrets are full-length random-source output, base32-encoded without padding.
    The random source is an explicit byte stream with a read position (Model/Random.v); the
    theorems hold for every stream and every call history.  That the default source really is
    the operating system's CSPRNG is the Go runtime's (crypto/rand) and is not modelled. *)
From OtpV Require Import Prelude Rfc4648 Decoder Random Base32Proofs UtilsProofs.
Open Scope N_scope.

(** one call: 20/32/64 bytes taken unmodified from the stream at the current position, returned
    as unpadded upper-case base32 that DecodeSecret maps back to those bytes; the position
    advances by exactly that many bytes; an unsupported hash yields an error and no read *)
Theorem C08_call : forall algo s pos,
  wf_stream s ->
  match random_secret algo s pos with
  | (Ok out, pos') => exists n, secret_size algo = Some n /\ pos' = (pos + n)%nat /\ good_secret s pos out /\
                                out = b32_nopad (take s pos n)
  | (Err _, pos') => secret_size algo = None /\ pos' = pos
  | (Panic, _) => False
  end.
Proof. exact random_secret_spec. Qed.
Print Assumptions C08_call.

Theorem C08_sizes : secret_size 0 = Some 20%nat /\ secret_size 1 = Some 32%nat /\ secret_size 2 = Some 64%nat /\
                    forall a, 3 <= a -> secret_size a = None.
Proof.
  repeat split. intros a Ha. unfold secret_size.
  destruct a as [|[[q|q|]|[q|q|]|]]; try reflexivity; exfalso; lia.
Qed.
Print Assumptions C08_sizes.

(** every history of calls: consecutive — hence disjoint — intervals of the stream, each byte
    used once, every successful result the encoding of its interval *)
Theorem C08_history : forall s, wf_stream s -> forall algos pos, history_ok s pos (run_calls s pos algos).
Proof. exact run_calls_history. Qed.
Print Assumptions C08_history.

(** the returned text contains only A-Z and 2-7 (no padding) and decodes to the bytes *)
Theorem C08_text : forall bs, wfb bs ->
  Forall base32_upper_char (b32_nopad bs) /\ decode_secret (b32_nopad bs) = Ok bs.
Proof. intros bs H. split; [apply b32_nopad_chars|apply decode_nopad; exact H]. Qed.
Print Assumptions C08_text.

Example C08_nonvacuous :
  let s := fun i => N.of_nat (i * 7 mod 256) in
  match run_calls s 0 [0; 7; 1] with
  | [(0%nat, Ok a); (20%nat, Err _); (20%nat, Ok b)] => length a = 32%nat /\ length b = 52%nat
  | _ => False
  end.
Proof. vm_compute. split; reflexivity. Qed.
