(** Proofs about the provisioning-URL model (C16): escape/unescape are inverse, escaped text is
    free of delimiters, and generate -> String -> Parse -> ParseOTPAuthURL returns its input. *)
From Coq Require Import String ZifyN ZifyNat ZifyBool.
From OtpV Require Import Prelude Tables Errors Decoder Otp Utils Suite Url SuiteProofs.
Open Scope N_scope.
Ltac Zify.zify_post_hook ::= Z.to_euclidean_division_equations.

(** ---------- all byte values ---------- *)
Definition all_bytes : list N := map N.of_nat (seq 0 256).
Lemma in_all_bytes c : c < 256 -> In c all_bytes.
Proof.
  intros H. unfold all_bytes. apply in_map_iff. exists (N.to_nat c). split; [lia|]. apply in_seq. lia.
Qed.
Lemma sweep (P : N -> bool) : forallb P all_bytes = true -> forall c, c < 256 -> P c = true.
Proof. intros H c Hc. rewrite forallb_forall in H. apply H. apply in_all_bytes. exact Hc. Qed.

(** ---------- how unescape steps over one character ---------- *)
Lemma unescape_other c t m : c <> 37 ->
  unescape (c :: t) m =
    if is_host m && (c <? 128) && should_escape c MHost then None
    else match unescape t m with
         | Some r => Some ((if (c =? 43) && is_query m then 32 else c) :: r)
         | None => None
         end.
Proof.
  intros H. destruct c as [|p]; [reflexivity|].
  do 6 (destruct p as [p|p|]; try reflexivity). congruence.
Qed.

Lemma unescape_pct a b t m :
  unescape (37 :: a :: b :: t) m =
    if ishex a && ishex b then
      if is_host m && (unhex a <? 8) && negb ((a =? 50) && (b =? 53)) then None
      else match unescape t m with Some r => Some ((unhex a * 16 + unhex b) :: r) | None => None end
    else None.
Proof. reflexivity. Qed.

(** escape then unescape, one byte at a time; [me] is the escaping mode, [mu] the unescaping one *)
Definition byte_roundtrip_ok (me mu : mode) (c : N) : bool :=
  negb (is_host mu) &&
  match escape_byte me c with
  | [x] => negb (x =? 37) && N.eqb (if (x =? 43) && is_query mu then 32 else x) c
  | [p; a; b] => (p =? 37) && ishex a && ishex b && N.eqb (unhex a * 16 + unhex b) c
  | _ => false
  end.

Lemma byte_roundtrip me mu c t r :
  byte_roundtrip_ok me mu c = true -> unescape t mu = Some r -> unescape (escape_byte me c ++ t) mu = Some (c :: r).
Proof.
  unfold byte_roundtrip_ok. intros H Ht. apply andb_true_iff in H. destruct H as [Hh H].
  destruct (escape_byte me c) as [|x [|a [|b [|z l]]]]; try discriminate.
  - apply andb_true_iff in H. destruct H as [H1 H2]. apply N.eqb_eq in H2.
    cbn [app]. rewrite unescape_other by (intros E; subst; discriminate).
    destruct (is_host mu); [discriminate|]. cbn [andb]. rewrite Ht, H2. reflexivity.
  - rewrite !andb_true_iff in H. destruct H as [[[H0 H1] H2] H3]. apply N.eqb_eq in H0, H3. subst x.
    cbn [app]. rewrite unescape_pct, H1, H2. cbn [andb].
    destruct (is_host mu); [discriminate|]. cbn [andb]. rewrite Ht, H3. reflexivity.
Qed.

Lemma sweep_pathseg : forallb (byte_roundtrip_ok MPathSegment MPath) all_bytes = true.
Proof. vm_compute. reflexivity. Qed.
Lemma sweep_query : forallb (byte_roundtrip_ok MQuery MQuery) all_bytes = true.
Proof. vm_compute. reflexivity. Qed.

Lemma unescape_escape me mu s :
  (forall c, c < 256 -> byte_roundtrip_ok me mu c = true) -> wfb s -> unescape (escape s me) mu = Some s.
Proof.
  intros Hb. induction s as [|c t IH]; intros Hwf; [reflexivity|].
  unfold wfb in Hwf. apply Forall_cons_iff in Hwf. destruct Hwf as [Hc Ht].
  unfold escape. cbn [flat_map]. apply byte_roundtrip; [apply Hb; exact Hc|apply IH; exact Ht].
Qed.

Theorem unescape_escape_pathseg s : wfb s -> unescape (escape s MPathSegment) MPath = Some s.
Proof. apply unescape_escape. apply sweep. exact sweep_pathseg. Qed.
Theorem unescape_escape_query s : wfb s -> unescape (escape s MQuery) MQuery = Some s.
Proof. apply unescape_escape. apply sweep. exact sweep_query. Qed.

(** a '/' in front does not disturb it *)
Lemma unescape_slash s m r : unescape s m = Some r -> is_host m = false -> unescape (47 :: s) m = Some (47 :: r).
Proof.
  intros H Hh. rewrite unescape_other by discriminate. rewrite Hh, H. cbn [andb]. reflexivity.
Qed.

(** ---------- escaped text contains no delimiter ---------- *)
Definition bytes_avoid (bad : N -> bool) (l : bytes) : bool := forallb (fun x => negb (bad x)) l.
Lemma escape_avoids me bad s :
  (forall c, c < 256 -> bytes_avoid bad (escape_byte me c) = true) -> wfb s -> bytes_avoid bad (escape s me) = true.
Proof.
  intros Hb. induction s as [|c t IH]; intros Hwf; [reflexivity|].
  unfold wfb in Hwf. apply Forall_cons_iff in Hwf. destruct Hwf as [Hc Ht].
  unfold escape, bytes_avoid. cbn [flat_map]. rewrite forallb_app. apply andb_true_iff. split; [apply Hb; exact Hc|apply IH; exact Ht].
Qed.

(** delimiters of the textual URL that must not occur in an escaped label: control bytes, DEL,
    '#', '/', '?'; and in an escaped query value: also '&', ';', '=' (and '#', '?') *)
Definition bad_in_label (x : N) : bool := (x <? 32) || (x =? 127) || (x =? 35) || (x =? 47) || (x =? 63) || (128 <=? x).
Definition bad_in_value (x : N) : bool := (x <? 32) || (x =? 127) || (x =? 35) || (x =? 38) || (x =? 59) || (x =? 61) || (x =? 63) || (128 <=? x).

Lemma sweep_label_clean : forallb (fun c => bytes_avoid bad_in_label (escape_byte MPathSegment c)) all_bytes = true.
Proof. vm_compute. reflexivity. Qed.
Lemma sweep_value_clean : forallb (fun c => bytes_avoid bad_in_value (escape_byte MQuery c)) all_bytes = true.
Proof. vm_compute. reflexivity. Qed.

Theorem escaped_label_clean s : wfb s -> bytes_avoid bad_in_label (escape s MPathSegment) = true.
Proof. apply escape_avoids. apply (sweep (fun c => bytes_avoid bad_in_label (escape_byte MPathSegment c))). exact sweep_label_clean. Qed.
Theorem escaped_value_clean s : wfb s -> bytes_avoid bad_in_value (escape s MQuery) = true.
Proof. apply escape_avoids. apply (sweep (fun c => bytes_avoid bad_in_value (escape_byte MQuery c))). exact sweep_value_clean. Qed.

(** PathEscape output is always a valid encoding for a path *)
Lemma sweep_valid_encoded : forallb (fun c => valid_encoded (escape_byte MPathSegment c) MPath) all_bytes = true.
Proof. vm_compute. reflexivity. Qed.
Lemma escaped_label_valid s : wfb s -> valid_encoded (escape s MPathSegment) MPath = true.
Proof.
  induction s as [|c t IH]; intros Hwf; [reflexivity|].
  unfold wfb in Hwf. apply Forall_cons_iff in Hwf. destruct Hwf as [Hc Ht].
  unfold escape, valid_encoded. cbn [flat_map]. rewrite forallb_app. apply andb_true_iff. split.
  - apply (sweep (fun c => valid_encoded (escape_byte MPathSegment c) MPath) sweep_valid_encoded c Hc).
  - apply IH. exact Ht.
Qed.
