(** C16 — provisioning URLs round-trip: parsing a generated otpauth URL returns its input.
    Model/Url.v transcribes the slice of net/url the library uses (escape, unescape, Values.Encode,
    URL.String, Parse, ParseQuery) together with generateOTPURL / ParseOTPAuthURL. *)
From Coq Require Import String.
From OtpV Require Import Prelude Errors Utils Url UrlProofs.
Open Scope N_scope.

(** issuer (non-empty, no colon), account and secret (non-empty) — arbitrary bytes —, a supported
    hash, a code length 0..255 and a period below 2^63: the generated URL has scheme otpauth and
    type totp; its *textual form* parses (url.Parse) to a URL from which ParseOTPAuthURL returns
    the same issuer, account, secret, hash, the code length (0 meaning 6) and the period (0 meaning 30) *)
Theorem C16_roundtrip_totp : forall p, wf_param p ->
  exists u u', generate_totp_url p = Ok u /\ u_scheme u = s2b "otpauth" /\ u_host u = s2b "totp" /\
               url_parse (url_string u) = POk u' /\ u_scheme u' = s2b "otpauth" /\ u_host u' = s2b "totp" /\
               parse_otpauth_url (Some u') =
               Ok (mkUrlParam (up_issuer p) (up_account p) (eff_url_period p) (up_secret p) (eff_digits p) (up_alg p)).
Proof. exact roundtrip_totp. Qed.
Print Assumptions C16_roundtrip_totp.

(** the same for HOTP (type hotp; the parsed period is the default 30) *)
Theorem C16_roundtrip_hotp : forall p, wf_param p ->
  exists u u', generate_hotp_url p = Ok u /\ u_scheme u = s2b "otpauth" /\ u_host u = s2b "hotp" /\
               url_parse (url_string u) = POk u' /\ u_scheme u' = s2b "otpauth" /\ u_host u' = s2b "hotp" /\
               parse_otpauth_url (Some u') =
               Ok (mkUrlParam (up_issuer p) (up_account p) 30 (up_secret p) (eff_digits p) (up_alg p)).
Proof. exact roundtrip_hotp. Qed.
Print Assumptions C16_roundtrip_hotp.

(** the two facts the round trip rests on, for every byte string *)
Theorem C16_unescape_escape : forall s, wfb s ->
  unescape (escape s MPathSegment) MPath = Some s /\ unescape (escape s MQuery) MQuery = Some s.
Proof. intros s H. split; [apply unescape_escape_pathseg|apply unescape_escape_query]; exact H. Qed.
Print Assumptions C16_unescape_escape.

Theorem C16_escaped_text_has_no_delimiter : forall s, wfb s ->
  bytes_avoid bad_in_label (escape s MPathSegment) = true /\ bytes_avoid bad_in_value (escape s MQuery) = true.
Proof. intros s H. split; [apply escaped_label_clean|apply escaped_value_clean]; exact H. Qed.
Print Assumptions C16_escaped_text_has_no_delimiter.

(** any query: Values.Encode followed by ParseQuery is the identity on pairs with plain keys *)
Theorem C16_query_roundtrip : forall l, Forall good_pair l -> parse_query (encode_pairs true l) = l.
Proof. exact parse_query_encode. Qed.
Print Assumptions C16_query_roundtrip.

(** parsing any URL either fails or returns exactly the numbers written in it: the code length
    is the integer Atoi reads from the digits value (0..255, else an error) and the period the
    integer it reads from the period value (>= 0, else an error) — never a wrapped or truncated one *)
Theorem C16_exact_numbers : forall u p,
  parse_otpauth_url (Some u) = Ok p ->
  let q := parse_query (u_rawquery u) in
  (query_get (s2b "digits") q = [] /\ up_digits p = 6 \/
   exists z, atoi (query_get (s2b "digits") q) = Some z /\ (0 <= z <= 255)%Z /\ Z.of_N (up_digits p) = z) /\
  (query_get (s2b "period") q = [] /\ up_period p = 30 \/
   exists z, atoi (query_get (s2b "period") q) = Some z /\ (0 <= z)%Z /\ Z.of_N (up_period p) = z).
Proof. exact parse_numbers_exact. Qed.
Print Assumptions C16_exact_numbers.

Theorem C16_atoi_is_the_written_integer : forall s z, atoi s = Some z ->
  exists ds, ds <> [] /\ forallb is_dec_digit ds = true /\
             (s = ds /\ z = Z.of_N (dec_val ds) \/ s = 43 :: ds /\ z = Z.of_N (dec_val ds) \/ s = 45 :: ds /\ z = (- Z.of_N (dec_val ds))%Z).
Proof. exact atoi_value. Qed.
Print Assumptions C16_atoi_is_the_written_integer.

(** non-vacuity: "My Company" (the issuer the pinned tree garbled), delimiter-rich account and secret *)
Example C16_example :
  let p := mkUrlParam (s2b "My Company") (s2b "a/b?c#d%41@x:y") 0 (s2b "JBSW Y3DP+&=;") 0 1 in
  wf_param p /\
  match generate_totp_url p with
  | Ok u => url_string u = s2b "otpauth://totp/My%20Company:a%2Fb%3Fc%23d%2541@x:y?algorithm=SHA256&digits=6&issuer=My+Company&period=30&secret=JBSW+Y3DP%2B%26%3D%3B"
  | _ => False
  end /\
  is_err (parse_otpauth_url (Some (mkUrl (s2b "otpauth") [] false (s2b "totp") (s2b "/a:b") [] false (s2b "digits=262") []))) = true /\
  is_err (parse_otpauth_url (Some (mkUrl (s2b "otpauth") [] false (s2b "totp") (s2b "/a:b") [] false (s2b "period=-1") []))) = true.
Proof.
  cbv zeta. split; [|split; [vm_compute; reflexivity|split; vm_compute; reflexivity]].
  unfold wf_param. cbn [up_issuer up_account up_secret up_alg up_digits up_period].
  repeat split; try discriminate; try (vm_compute; reflexivity); try (unfold two63; lia);
    try (unfold wfb; vm_compute; repeat constructor); try (vm_compute; repeat constructor; discriminate).
Qed.
