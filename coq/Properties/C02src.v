(** C02 over the Go source (Generated/Src.v: GenerateTOTP, TimeCounterFunc as translated from totp.go / otp.go).
    The translator maps time.Time to its Unix second count and refuses any other method of the type, so that the
    code depends on nothing else about the instant is a fact about the source, not only about the model. *)
From Coq Require Import String.
From OtpV Require Import Prelude Sha GoSem Tables Decoder Derive Otp Rfc4226 Errors OtpProofs Src SrcLift SrcTop SrcEqDecode SrcEqValidate SrcEqHotp SrcEqTotp C02.
Open Scope N_scope.

Theorem C02src_is_hotp : forall fuel junk secret unix p, runs fuel junk secret -> (0 <= unix < 2 ^ 62)%Z ->
  Src.GenerateTOTP fuel junk secret unix (Some p)
  = Src.GenerateHOTP fuel junk secret (Z.to_N unix / eff30 (p_period p)) (Some p).
Proof.
  intros fuel junk secret unix p (Hf & Hfs & Hs & Hj) Hu.
  rewrite src_GenerateTOTP_eq, src_GenerateHOTP_eq by (assumption || lia).
  rewrite C02_is_hotp by exact Hu. reflexivity.
Qed.
Print Assumptions C02src_is_hotp.

Theorem C02src_value : forall fuel junk secret key unix d per sk a,
  runs fuel junk secret -> Src.DecodeSecret fuel secret = Val (key, None) -> 1 <= d <= 10 -> (0 <= unix < 2 ^ 62)%Z ->
  Src.GenerateTOTP fuel junk secret unix (Some (mkParam d per sk (N_of_alg a)))
  = Val (hotp_value hmac a key (Z.to_N unix / eff30 per) (N.to_nat d), None).
Proof.
  intros fuel junk secret key unix d per sk a (Hf & Hfs & Hs & Hj) Hk Hd Hu.
  apply src_decode_ok in Hk; [|assumption|assumption].
  rewrite src_GenerateTOTP_eq by (assumption || lia). rewrite (C02_value _ key) by assumption. reflexivity.
Qed.
Print Assumptions C02src_value.

Theorem C02src_same_step : forall fuel junk secret u u' p, runs fuel junk secret ->
  (0 <= u < 2 ^ 62)%Z -> (0 <= u' < 2 ^ 62)%Z ->
  Z.to_N u / eff30 (p_period p) = Z.to_N u' / eff30 (p_period p) ->
  Src.GenerateTOTP fuel junk secret u (Some p) = Src.GenerateTOTP fuel junk secret u' (Some p).
Proof.
  intros fuel junk secret u u' p (Hf & Hfs & Hs & Hj) Hu Hu' He.
  rewrite !src_GenerateTOTP_eq by (assumption || lia). rewrite (C02_same_step secret u u' p) by assumption. reflexivity.
Qed.
Print Assumptions C02src_same_step.

Theorem C02src_nil_param : forall fuel junk secret unix, runs fuel junk secret ->
  Src.GenerateTOTP fuel junk secret unix None = Src.GenerateTOTP fuel junk secret unix (Some (mkParam 6 30 0 0)).
Proof.
  intros fuel junk secret unix (Hf & Hfs & Hs & Hj).
  rewrite !src_GenerateTOTP_eq by (assumption || lia). rewrite C02_nil_param. reflexivity.
Qed.
Print Assumptions C02src_nil_param.

Theorem C02src_zero_period : forall fuel junk secret unix d sk a, runs fuel junk secret ->
  Src.GenerateTOTP fuel junk secret unix (Some (mkParam d 0 sk a)) = Src.GenerateTOTP fuel junk secret unix (Some (mkParam d 30 sk a)).
Proof.
  intros fuel junk secret unix d sk a (Hf & Hfs & Hs & Hj).
  rewrite !src_GenerateTOTP_eq by (assumption || lia). rewrite C02_zero_period. reflexivity.
Qed.
Print Assumptions C02src_zero_period.

Example C02src_rfc_vector :
  Src.GenerateTOTP 40 (repeat 9 8) (s2b "GEZDGNBVGY3TQOJQGEZDGNBVGY3TQOJQ"%string) 59 (Some (mkParam 8 30 0 0)) = Val (s2b "94287082"%string, None) /\
  Src.GenerateTOTP 40 (repeat 9 8) (s2b "GEZDGNBVGY3TQOJQGEZDGNBVGY3TQOJQ"%string) 59 (Some (mkParam 8 0 0 0)) = Val (s2b "94287082"%string, None).
Proof. split; vm_compute; reflexivity. Qed.
