(** C05 — OCRA codes are exactly the RFC 6287 value over the documented message layout. *)
From Coq Require Import String.
From OtpV Require Import Prelude Sha Tables Decoder Derive Otp Ocra Rfc4226 Rfc6287 DeriveProofs OtpProofs OcraProofs Errors.
Open Scope N_scope.

(** for every usable suite configuration (however it was obtained: registry entry, parsed
    string or hand-built — generation only ever sees the configuration value), decodable
    secret and admissible input, the code is the RFC 6287 value of Spec/Rfc6287.v *)
Theorem C05_value : forall secret key cfg i a,
  decode_secret secret = Ok key -> usable cfg -> admissible cfg i -> sc_hash cfg = N_of_alg a ->
  generate_ocra secret cfg i =
  Ok (ocra_value hmac a key (sc_raw cfg)
        (sel (sc_c cfg) (oi_counter i)) (sel (sc_q cfg) (oi_challenge i)) (sel (sc_p cfg) (oi_password i))
        (sel (sc_s cfg) (oi_session i)) (sel (sc_t cfg) (oi_timestamp i)) (Z.to_nat (sc_digits cfg))).
Proof. exact (generate_ocra_value hmac hmac_length hmac_wf). Qed.
Print Assumptions C05_value.

(** input fields the suite does not select have no influence on the outcome — code or error *)
Theorem C05_unselected : forall secret cfg i j,
  agree cfg i j -> generate_ocra secret cfg i = generate_ocra secret cfg j.
Proof. exact (generate_ocra_unselected hmac hmac_length hmac_wf). Qed.
Print Assumptions C05_unselected.

(** under admissibility padBytes never truncates: it is right-padding with zeros *)
Theorem C05_pad : forall b n, (length b <= n)%nat -> pad_bytes b (Z.of_nat n) = Ok (rpad n b).
Proof. exact pad_bytes_rpad. Qed.
Print Assumptions C05_pad.

(** the message is suite-string, one zero byte, then exactly the selected fields in order *)
Theorem C05_message : forall cfg i,
  admissible cfg i ->
  ocra_message cfg i = Ok (ocra_msg (sc_raw cfg) (sel (sc_c cfg) (oi_counter i)) (sel (sc_q cfg) (oi_challenge i))
                                    (sel (sc_p cfg) (oi_password i)) (sel (sc_s cfg) (oi_session i))
                                    (sel (sc_t cfg) (oi_timestamp i))).
Proof. exact ocra_message_spec. Qed.
Print Assumptions C05_message.

(** non-vacuity: RFC 6287 appendix C, OCRA-1:HOTP-SHA1-6:QN08, key "12345678901234567890",
    question "00000000" (decimal 0 -> hex "0", right-padded) gives 237653 *)
Example C05_rfc_vector :
  generate_ocra (s2b "GEZDGNBVGY3TQOJQGEZDGNBVGY3TQOJQ"%string)
    (mkSuite (s2b "OCRA-1:HOTP-SHA1-6:QN08"%string) 0 6 1 false true false false false 0 0)
    (mkInput [] (repeat 0 128) [] [] []) = Ok (s2b "237653"%string).
Proof. vm_compute. reflexivity. Qed.
