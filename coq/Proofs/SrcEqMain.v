(** The binding wasm/main.go (argument parsing, the five callbacks with their own window loops) as translated from
    the Go source (Generated/SrcMain.v) computes what the hand-written model (Model/Wasm.v) computes.  In the
    translation the binding's errors are their text, console output is dropped, js.Value is the model's [jsval]
    (Type / String / Int as observed under Node), and the library functions it calls are the translations of
    Generated/Src.v and Generated/SrcWasm.v. *)
From Coq Require Import ZifyN ZifyNat ZifyBool String.
From OtpV Require Import Prelude Sha Tables GoSem Errors Decoder Derive Otp Ocra Utils Suite Url Wasm Src SrcWasm SrcMain
     WasmProofs OtpProofs DeriveProofs SrcLift SrcTop SrcEqDecode SrcEqOcraV SrcEqValidate SrcEqTotp SrcEqWasm SrcEqUrl.
Open Scope N_scope.
Ltac Zify.zify_post_hook ::= Z.div_mod_to_equations.

Definition lift_ws {A} (zero : A) (o : wout A) : res (A * option bytes) :=
  match o with inl a => Val (a, None) | inr (WErr t) => Val (zero, Some t) | inr (WPanic _) => Pnc end.
(** what a callback hands to JavaScript (before the guard turns a panic into an error string) *)
Definition lift_w (o : wout wres) : res wres :=
  match o with inl r => Val r | inr (WErr t) => Val (WStr (s2b "error: " ++ t)) | inr (WPanic _) => Pnc end.

Lemma src_parseStringArg_eq v name : SrcMain.parseStringArg v name = lift_ws [] (Wasm.parse_string_arg v name).
Proof.
  unfold SrcMain.parseStringArg, Wasm.parse_string_arg, SrcMain.js_type_go.
  destruct v as [s|n|b| | | | | |]; cbn [js_type_name rbind]; try reflexivity.
  destruct s as [|c s']; reflexivity.
Qed.

Lemma src_parseIntArg_eq v name : SrcMain.parseIntArg v name = lift_ws 0%Z (Wasm.parse_int_arg v name).
Proof.
  unfold SrcMain.parseIntArg, Wasm.parse_int_arg, SrcMain.js_type_go, SrcMain.js_int_go.
  destruct v as [s|n|b| | | | | |]; cbn [js_type_name rbind]; try reflexivity.
  change (Z.ltb (js_int n) 0) with (js_int n <? 0)%Z. destruct (js_int n <? 0)%Z; reflexivity.
Qed.

Lemma err_text_eq e : SrcMain.err_text e = Wasm.err_text e.
Proof. reflexivity. Qed.

(** what the library is asked to do with a string argument: enough fuel for the alphabet scan *)
Definition str_ok (fuel : nat) (s : bytes) : Prop := (length s < fuel)%nat /\ small s.

Lemma src_generateOTP_eq fuel secret counter digits algo : (22 <= fuel)%nat -> str_ok fuel secret ->
  SrcMain.generateOTP fuel secret counter digits algo = lift_ws [] (Wasm.generate_otp_wasm hmac secret counter digits algo).
Proof.
  intros Hf [Hl Hs]. unfold SrcMain.generateOTP, Wasm.generate_otp_wasm.
  pose proof (decode_cases fuel secret Hs Hl) as Hd.
  destruct (decode_secret secret) as [key|e|].
  - rewrite Hd. cbn [rbind fst snd option_map is_some]. unfold Src.Digits_Int. cbn [rbind].
    rewrite srcw_DeriveRFC4226Wasm_eq by lia.
    destruct (derive_wasm_with hmac key counter (Z.of_N digits) algo) as [code|e|]; reflexivity.
  - destruct Hd as [b Hd]. rewrite Hd. reflexivity.
  - rewrite Hd. reflexivity.
Qed.

Lemma dec_of_Z_nat n : dec_of_Z (Z.of_nat n) = dec_of_N (N.of_nat n).
Proof. unfold dec_of_Z. destruct (Z.of_nat n <? 0)%Z eqn:E; [lia|]. f_equal. lia. Qed.

Lemma zlen_neq {A} (l : list A) n : length l <> n -> negb (Z.eqb (zlen l) (Z.of_nat n)) = true.
Proof. intros H. unfold zlen. destruct (Z.eqb_spec (Z.of_nat (length l)) (Z.of_nat n)); [lia|reflexivity]. Qed.

Ltac idx_args :=
  repeat match goal with
         | |- context [SrcMain.idxJ (?a :: ?l) ?i] =>
           let r := eval cbv in (Z.to_nat i) in
           replace (SrcMain.idxJ (a :: l) i) with (match nth_error (a :: l) r with Some v => Val v | None => @Pnc jsval end) by reflexivity;
           cbn [nth_error]
         end.

Ltac step_str :=
  rewrite src_parseStringArg_eq;
  match goal with |- context [parse_string_arg ?v ?n] => destruct (parse_string_arg v n) as [?s|[?t|?t]] eqn:?E end;
  cbn [lift_ws rbind is_some wbind deref lift_w]; [ | reflexivity | reflexivity].
Ltac step_int :=
  rewrite src_parseIntArg_eq;
  match goal with |- context [parse_int_arg ?v ?n] => destruct (parse_int_arg v n) as [?z|[?t|?t]] eqn:?E end;
  cbn [lift_ws rbind is_some wbind deref lift_w]; [ | reflexivity | reflexivity].

Lemma parse_string_inv v n s : parse_string_arg v n = inl s -> v = JStr s.
Proof.
  unfold parse_string_arg. destruct v as [s0|x|b| | | | | |]; cbn [js_type_name]; try discriminate.
  destruct s0; [discriminate|]. intros H. inversion H. reflexivity.
Qed.

(** the first argument of every callback that decodes a secret is the secret *)
Definition args_ok (fuel : nat) (args : list jsval) : Prop :=
  match args with JStr s :: _ => str_ok fuel s | _ => True end.

Lemma src_generateHOTP_eq fuel this args : (22 <= fuel)%nat -> args_ok fuel args ->
  SrcMain.generateHOTP fuel this args = lift_w (Wasm.w_generate_hotp hmac args).
Proof.
  intros Hf Hok. unfold SrcMain.generateHOTP, SrcMain.parseArgsAndGenerate, Wasm.w_generate_hotp, Wasm.arg, Wasm.count_text.
  destruct (Nat.eqb_spec (length args) 4) as [E|E]; cbn [negb].
  2:{ change 4%Z with (Z.of_nat 4). rewrite (zlen_neq args 4 E). cbn [rbind is_some deref]. unfold zlen. rewrite dec_of_Z_nat. reflexivity. }
  destruct args as [|a0 [|a1 [|a2 [|a3 [|a4 l]]]]]; try (simpl in E; lia).
  change (negb (zlen [a0; a1; a2; a3] =? 4)%Z) with false. cbv iota. idx_args. cbn [rbind nth].
  step_str. idx_args. cbn [rbind].
  change (query_get (s2b "HOTP") [(s2b "HOTP", s2b "counter"); (s2b "TOTP", s2b "timestamp")]) with (s2b "counter").
  step_int. idx_args. cbn [rbind]. step_str. idx_args. cbn [rbind]. step_str.
  rewrite src_DigitsFromStr_eq, src_AlgorithmFromStr_eq. cbn [rbind].
  apply parse_string_inv in E0. subst a0.
  cbn [args_ok] in Hok.
  rewrite src_generateOTP_eq by assumption.
  destruct (generate_otp_wasm hmac s (of_int64 z) (digits_from_str s0) (algorithm_from_str s1)) as [code|[t|t]]; reflexivity.
Qed.

Lemma of_int64_pos z : (0 <= z < 9223372036854775808)%Z -> of_int64 z = Z.to_N z.
Proof. intros H. unfold of_int64, two64. rewrite Z.mod_small by lia. reflexivity. Qed.

Lemma parse_int_range v n z : parse_int_arg v n = inl z -> (0 <= z < 9223372036854775808)%Z.
Proof.
  unfold parse_int_arg. destruct v as [s|x|b| | | | | |]; cbn [js_type_name]; try discriminate.
  destruct (js_int x <? 0)%Z eqn:E; [discriminate|]. intros H. inversion H; subst z.
  unfold js_int, in_int64, min_int64 in *. destruct x as [z0|z0| | |]; try lia.
  - destruct ((-9223372036854775808 <=? z0)%Z && (z0 <? 9223372036854775808)%Z) eqn:E2; lia.
  - destruct ((-9223372036854775808 <=? z0)%Z && (z0 <? 9223372036854775808)%Z) eqn:E2; lia.
Qed.

Lemma src_generateTOTP_eq fuel this args : (22 <= fuel)%nat -> args_ok fuel args ->
  SrcMain.generateTOTP fuel this args = lift_w (Wasm.w_generate_totp hmac args).
Proof.
  intros Hf Hok. unfold SrcMain.generateTOTP, Wasm.w_generate_totp, Wasm.arg, Wasm.count_text.
  destruct (Nat.eqb_spec (length args) 5) as [E|E]; cbn [negb].
  2:{ change 5%Z with (Z.of_nat 5). rewrite (zlen_neq args 5 E). cbv zeta. cbn [rbind is_some deref]. unfold zlen. rewrite dec_of_Z_nat. reflexivity. }
  destruct args as [|a0 [|a1 [|a2 [|a3 [|a4 [|a5 l]]]]]]; try (simpl in E; lia).
  change (negb (zlen [a0; a1; a2; a3; a4] =? 5)%Z) with false. cbv iota. idx_args. cbn [rbind nth].
  step_str. idx_args. cbn [rbind]. step_int. idx_args. cbn [rbind]. step_str. idx_args. cbn [rbind]. step_str.
  idx_args. cbn [rbind]. step_int.
  change (Z.leb z0 0) with (z0 <=? 0)%Z. change (Z.ltb 3600 z0) with (3600 <? z0)%Z.
  destruct ((z0 <=? 0)%Z || (3600 <? z0)%Z) eqn:Ep; [reflexivity|].
  rewrite src_DigitsFromStr_eq, src_AlgorithmFromStr_eq. cbn [rbind]. cbv zeta.
  rewrite src_TimeCounterFunc_eq. rewrite (of_int64_pos z0) by lia.
  unfold time_counter. destruct (Z.to_N z0 =? 0) eqn:Ez; [lia|]. cbn [lift_p rbind].
  apply parse_string_inv in E0. subst a0. cbn [args_ok] in Hok.
  rewrite src_generateOTP_eq by assumption.
  destruct (generate_otp_wasm hmac s (of_int64 z / Z.to_N z0) (digits_from_str s0) (algorithm_from_str s1)) as [code|[t|t]]; reflexivity.
Qed.

(** ---------- validateHOTP ---------- *)
Lemma srcw_validate_verdict fuel code key c d a : (12 <= fuel)%nat ->
  SrcWasm.ValidateOTPWasm fuel code key c d a = lift_vd (validate_otp_wasm_with hmac code key c d a).
Proof. apply srcw_ValidateOTPWasm_eq. Qed.

Lemma validate_otp_wasm_no_err code key c d a e : validate_otp_wasm_with hmac code key c d a <> Err e.
Proof.
  unfold validate_otp_wasm_with. destruct (negb (zlen code =? Z.of_N d)%Z); [discriminate|].
  destruct (derive_wasm_with hmac key c (Z.of_N d) a); [|discriminate|discriminate]. destruct (bytes_eqb code a0); discriminate.
Qed.

Lemma validate_otp_wasm_no_panic code key c d a : validate_otp_wasm_with hmac code key c d a <> Panic.
Proof.
  rewrite (WasmProofs.validate_wasm_native hmac hmac_length hmac_wf).
  destruct (OtpProofs.validate_rfc4226_shape hmac hmac_length hmac_wf code key c d a) as [k [H|[e H]]]; rewrite H; discriminate.
Qed.

Lemma src_w_hotp_loop fuel0 code key counter d a skew : (12 <= fuel0)%nat ->
  forall n i fuel, (n < fuel)%nat -> (i + Z.of_nat n = skew + 1)%Z -> (-100 <= i)%Z -> (skew <= 100)%Z ->
  (0 <= counter < 9223372036854775808)%Z ->
  SrcMain.validateHOTP_loop1 fuel fuel0 skew counter code key d a i (fun _ => Val (WBool false))
  = Val (WBool (w_hotp_loop hmac (zseq i n) code key counter d a)).
Proof.
  intros Hf0. induction n as [|n IH]; intros i fuel Hf Hi Hlo Hhi Hc.
  - destruct fuel as [|fuel]; [lia|]. cbn [SrcMain.validateHOTP_loop1 zseq seq map w_hotp_loop].
    destruct (Z.leb i skew) eqn:E; [lia|]. reflexivity.
  - destruct fuel as [|fuel]; [lia|]. rewrite zseq_S. cbn [SrcMain.validateHOTP_loop1 w_hotp_loop].
    destruct (Z.leb i skew) eqn:E; [|lia]. cbv zeta.
    rewrite (wrap_int64_small (i + 1)) by lia.
    change (Z.ltb (wrap_int64 (counter + i)) 0) with (wrap_int64 (counter + i) <? 0)%Z.
    destruct (wrap_int64 (counter + i) <? 0)%Z; [apply IH; lia|].
    rewrite srcw_validate_verdict by lia.
    pose proof (validate_otp_wasm_no_err code key (of_int64 (wrap_int64 (counter + i))) d a) as Hne.
    pose proof (validate_otp_wasm_no_panic code key (of_int64 (wrap_int64 (counter + i))) d a) as Hnp.
    destruct (validate_otp_wasm_with hmac code key (of_int64 (wrap_int64 (counter + i))) d a) as [[b oe]|e|];
      [|exfalso; apply (Hne e); reflexivity|congruence].
    cbn [lift_vd rbind fst snd option_map].
    destruct b, oe as [e|]; cbn [option_map is_some negb andb]; try reflexivity; apply IH; lia.
Qed.

Lemma src_validateHOTP_eq fuel this args : (22 <= fuel)%nat -> args_ok fuel args ->
  SrcMain.validateHOTP fuel this args = lift_w (Wasm.w_validate_hotp hmac args).
Proof.
  intros Hf Hok. unfold SrcMain.validateHOTP, Wasm.w_validate_hotp, Wasm.arg, Wasm.count_text.
  destruct (Nat.eqb_spec (length args) 6) as [E|E]; cbn [negb].
  2:{ change 6%Z with (Z.of_nat 6). rewrite (zlen_neq args 6 E). cbv zeta. cbn [rbind is_some deref]. unfold zlen. rewrite dec_of_Z_nat. reflexivity. }
  destruct args as [|a0 [|a1 [|a2 [|a3 [|a4 [|a5 [|a6 l]]]]]]]; try (simpl in E; lia).
  change (negb (zlen [a0; a1; a2; a3; a4; a5] =? 6)%Z) with false. cbv iota. idx_args. cbn [rbind nth].
  step_str. idx_args. cbn [rbind]. step_str. idx_args. cbn [rbind]. step_int. idx_args. cbn [rbind]. step_str.
  idx_args. cbn [rbind]. step_str. idx_args. cbn [rbind]. step_int.
  change (Z.ltb z0 0) with (z0 <? 0)%Z. change (Z.ltb 10 z0) with (10 <? z0)%Z.
  destruct ((z0 <? 0)%Z || (10 <? z0)%Z) eqn:Esk; [reflexivity|].
  rewrite src_DigitsFromStr_eq, src_AlgorithmFromStr_eq. cbn [rbind].
  apply parse_string_inv in E0. subst a0. cbn [args_ok] in Hok. destruct Hok as [Hl Hs].
  pose proof (decode_cases fuel s Hs Hl) as Hd.
  destruct (decode_secret s) as [key|e|].
  - rewrite Hd. cbn [rbind fst snd option_map is_some]. cbv zeta.
    rewrite wrap_int64_small by lia.
    pose proof (parse_int_range _ _ _ E2) as Hc.
    rewrite (src_w_hotp_loop fuel s0 key z (digits_from_str s1) (algorithm_from_str s2) z0 ltac:(lia) (2 * Z.to_nat z0 + 1) (- z0) fuel) by lia.
    cbn [lift_w]. rewrite offsets_zseq. repeat f_equal; lia.
  - destruct Hd as [b Hd]. rewrite Hd. reflexivity.
  - rewrite Hd. reflexivity.
Qed.

(** ---------- validateTOTP ---------- *)
Lemma src_w_totp_loop fuel0 code key counter d a skew ts : (12 <= fuel0)%nat ->
  forall n i fuel, (n < fuel)%nat -> (i + Z.of_nat n = skew + 1)%Z -> (-100 <= i)%Z -> (skew <= 100)%Z ->
  SrcMain.validateTOTP_loop1 fuel fuel0 skew code key counter d a ts i (fun _ => Val (WBool false))
  = Val (WBool (w_totp_loop hmac (zseq i n) code key counter d a)).
Proof.
  intros Hf0. induction n as [|n IH]; intros i fuel Hf Hi Hlo Hhi.
  - destruct fuel as [|fuel]; [lia|]. cbn [SrcMain.validateTOTP_loop1 zseq seq map w_totp_loop].
    destruct (Z.leb i skew) eqn:E; [lia|]. reflexivity.
  - destruct fuel as [|fuel]; [lia|]. rewrite zseq_S. cbn [SrcMain.validateTOTP_loop1 w_totp_loop].
    destruct (Z.leb i skew) eqn:E; [|lia].
    rewrite (wrap_int64_small (i + 1)) by lia.
    rewrite srcw_validate_verdict by lia. change (N.add counter (of_int64 i)) with (counter + of_int64 i).
    pose proof (validate_otp_wasm_no_err code key (wrap64 (counter + of_int64 i)) d a) as Hne.
    pose proof (validate_otp_wasm_no_panic code key (wrap64 (counter + of_int64 i)) d a) as Hnp.
    destruct (validate_otp_wasm_with hmac code key (wrap64 (counter + of_int64 i)) d a) as [[b oe]|e|];
      [|exfalso; apply (Hne e); reflexivity|congruence].
    cbn [lift_vd rbind fst snd option_map].
    destruct b, oe as [e|]; cbn [option_map is_some negb andb]; try reflexivity; apply IH; lia.
Qed.

Lemma src_validateTOTP_eq fuel this args : (22 <= fuel)%nat -> args_ok fuel args ->
  SrcMain.validateTOTP fuel this args = lift_w (Wasm.w_validate_totp hmac args).
Proof.
  intros Hf Hok. unfold SrcMain.validateTOTP, Wasm.w_validate_totp, Wasm.arg, Wasm.count_text.
  destruct (Nat.eqb_spec (length args) 7) as [E|E]; cbn [negb].
  2:{ change 7%Z with (Z.of_nat 7). rewrite (zlen_neq args 7 E). cbv zeta. cbn [rbind is_some deref]. unfold zlen. rewrite dec_of_Z_nat. reflexivity. }
  destruct args as [|a0 [|a1 [|a2 [|a3 [|a4 [|a5 [|a6 [|a7 l]]]]]]]]; try (simpl in E; lia).
  change (negb (zlen [a0; a1; a2; a3; a4; a5; a6] =? 7)%Z) with false. cbv iota. idx_args. cbn [rbind nth].
  step_str. idx_args. cbn [rbind]. step_str. idx_args. cbn [rbind]. step_int.
  change (Z.ltb z 0) with (z <? 0)%Z. destruct (z <? 0)%Z eqn:Ets; [reflexivity|].
  idx_args. cbn [rbind]. step_str. idx_args. cbn [rbind]. step_str. idx_args. cbn [rbind]. step_int.
  change (Z.ltb z0 0) with (z0 <? 0)%Z. change (Z.ltb 10 z0) with (10 <? z0)%Z.
  destruct ((z0 <? 0)%Z || (10 <? z0)%Z) eqn:Esk; [reflexivity|].
  idx_args. cbn [rbind]. step_int.
  change (Z.leb z1 0) with (z1 <=? 0)%Z. destruct (z1 <=? 0)%Z eqn:Ep; [reflexivity|].
  rewrite src_DigitsFromStr_eq, src_AlgorithmFromStr_eq. cbn [rbind].
  apply parse_string_inv in E0. subst a0. cbn [args_ok] in Hok. destruct Hok as [Hl Hs].
  pose proof (decode_cases fuel s Hs Hl) as Hd.
  destruct (decode_secret s) as [key|e|].
  - rewrite Hd. cbn [rbind fst snd option_map is_some]. cbv zeta.
    repeat match goal with H : parse_int_arg _ _ = inl ?zz |- _ => pose proof (parse_int_range _ _ _ H); clear H end.
    rewrite src_TimeCounterFunc_eq. rewrite (of_int64_pos z1) by lia.
    unfold time_counter. destruct (Z.to_N z1 =? 0) eqn:Ez; [lia|]. cbn [lift_p rbind].
    rewrite wrap_int64_small by lia.
    rewrite (src_w_totp_loop fuel s0 key (of_int64 z / Z.to_N z1) (digits_from_str s1) (algorithm_from_str s2) z0 z ltac:(lia) (2 * Z.to_nat z0 + 1) (- z0) fuel) by lia.
    cbn [lift_w]. rewrite offsets_zseq. repeat f_equal; lia.
  - destruct Hd as [b Hd]. rewrite Hd. reflexivity.
  - rewrite Hd. reflexivity.
Qed.

(** ---------- generateOTPURL ---------- *)
Lemma src_generateOTPURL_eq fuel this args :
  SrcMain.generateOTPURL fuel this args = lift_w (Wasm.w_generate_otp_url args).
Proof.
  unfold SrcMain.generateOTPURL, Wasm.w_generate_otp_url.
  destruct (Nat.eqb_spec (length args) 6) as [E|E]; cbn [negb].
  2:{ change 6%Z with (Z.of_nat 6). rewrite (zlen_neq args 6 E). cbv zeta. cbn [rbind is_some deref]. unfold zlen. rewrite dec_of_Z_nat. reflexivity. }
  destruct args as [|a0 [|a1 [|a2 [|a3 [|a4 [|a5 [|a6 l]]]]]]]; try (simpl in E; lia).
  change (negb (zlen [a0; a1; a2; a3; a4; a5] =? 6)%Z) with false. cbv iota. idx_args. cbn [rbind nth].
  step_str. idx_args. cbn [rbind]. step_str. idx_args. cbn [rbind]. step_str. idx_args. cbn [rbind]. step_str.
  idx_args. cbn [rbind]. step_str. rewrite src_DigitsFromStr_eq. cbn [rbind]. idx_args. cbn [rbind]. step_str.
  rewrite src_AlgorithmFromStr_eq. cbn [rbind]. cbv zeta.
  unfold Suite.beq. change Otp.bytes_eqb with GoSem.beqb.
  destruct (beqb s (s2b "totp")).
  - rewrite SrcEqUrl.src_GenerateTOTPURL_eq.
    destruct (generate_totp_url (mkUrlParam s0 s1 0 s2 (digits_from_str s3) (algorithm_from_str s4))) as [u|e|]; reflexivity.
  - destruct (beqb s (s2b "hotp")).
    + rewrite SrcEqUrl.src_GenerateHOTPURL_eq.
      destruct (generate_hotp_url (mkUrlParam s0 s1 0 s2 (digits_from_str s3) (algorithm_from_str s4))) as [u|e|]; reflexivity.
    + reflexivity.
Qed.

(** ---------- the binding never panics on arguments JavaScript can pass without a BigInt ---------- *)
Definition no_bigint (args : list jsval) : Prop := Forall (fun v => v <> JBigInt) args.

Lemma parse_string_no_panic v n t : v <> JBigInt -> parse_string_arg v n <> inr (WPanic t).
Proof. intros H. unfold parse_string_arg. destruct v as [s|x|b| | | | | |]; cbn [js_type_name]; try discriminate; [destruct s; discriminate|congruence]. Qed.
Lemma parse_int_no_panic v n t : v <> JBigInt -> parse_int_arg v n <> inr (WPanic t).
Proof.
  intros H. unfold parse_int_arg. destruct v as [s|x|b| | | | | |]; cbn [js_type_name]; try discriminate; [|congruence].
  destruct (js_int x <? 0)%Z; discriminate.
Qed.

Lemma generate_otp_wasm_no_panic secret c d a t : generate_otp_wasm hmac secret c d a <> inr (WPanic t).
Proof.
  unfold generate_otp_wasm. pose proof (OtpProofs.decode_secret_no_panic secret) as Hd.
  destruct (decode_secret secret) as [key|e|]; [|discriminate|congruence].
  rewrite (derive_wasm_native hmac hmac_length hmac_wf).
  pose proof (DeriveProofs.derive_rfc4226_total hmac hmac_length hmac_wf key c (Z.of_N d) a) as Hn.
  destruct (derive_rfc4226_with hmac key c (Z.of_N d) a); [discriminate|discriminate|congruence].
Qed.

Lemma lift_w_result o : (forall t, o <> inr (WPanic t)) -> lift_w o = Val (js_result o).
Proof. intros H. destruct o as [r|[t|t]]; [reflexivity|reflexivity|exfalso; apply (H t); reflexivity]. Qed.
