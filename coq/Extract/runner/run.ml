(* OCaml driver for the extracted model: reads case lines on stdin, prints run_case's answer.
   The only glue is the conversion between OCaml chars and the extracted N. *)
open Model

let rec pos_of_int i =
  if i = 1 then XH else if i land 1 = 1 then XI (pos_of_int (i lsr 1)) else XO (pos_of_int (i lsr 1))
let n_of_int i = if i = 0 then N0 else Npos (pos_of_int i)
let rec int_of_pos = function XH -> 1 | XO p -> 2 * int_of_pos p | XI p -> 2 * int_of_pos p + 1
let int_of_n = function N0 -> 0 | Npos p -> int_of_pos p

let tbl = Array.init 256 n_of_int

let bytes_of_string s =
  let rec go i acc = if i < 0 then acc else go (i - 1) (tbl.(Char.code s.[i]) :: acc) in
  go (String.length s - 1) []

let string_of_bytes l =
  let b = Buffer.create 64 in
  List.iter (fun n -> Buffer.add_char b (Char.chr (int_of_n n land 255))) l;
  Buffer.contents b

let () =
  try
    while true do
      let line = input_line stdin in
      print_string (string_of_bytes (run_case (bytes_of_string line)));
      print_newline ()
    done
  with End_of_file -> ()
