(** OCRA: admission (C14), RFC 6287 value (C05), validation iff generation (C06). *)
From Coq Require Import ZifyN ZifyNat ZifyBool.
From OtpV Require Import Prelude Sha Tables Errors Decoder Derive Otp Ocra Rfc4226 Rfc6287 BitLemmas DeriveProofs OtpProofs.
Open Scope N_scope.
Ltac Zify.zify_post_hook ::= Z.div_mod_to_equations.

(** ---------------- C14: usability of a suite ---------------- *)
Definition usable (cfg : suite_cfg) : Prop :=
  (4 <= sc_digits cfg <= 10)%Z /\ sc_hash cfg < 3 /\
  (sc_p cfg = true -> sc_pwhash cfg <> 0%Z) /\
  (sc_t cfg = true -> (0 < sc_timestep cfg)%Z) /\
  (sc_q cfg = true -> sc_challenge cfg <> 0%Z).

Theorem suite_validate_iff cfg : suite_validate cfg = None <-> usable cfg.
Proof.
  unfold suite_validate, usable.
  change c_SHA1 with 0%Z; change c_SHA256 with 1%Z; change c_SHA512 with 2%Z.
  change c_PasswordNone with 0%Z; change c_ChallengeNone with 0%Z.
  destruct (sc_p cfg), (sc_t cfg), (sc_q cfg); cbn [andb];
  repeat match goal with |- context [if ?b then _ else _] => let E := fresh "E" in destruct b eqn:E end;
  split; intros H; try discriminate; try reflexivity; try (exfalso; lia);
  try (repeat split; try discriminate; intros; lia).
Qed.

(** ---------------- C14: admission of an input ---------------- *)
(** minimum challenge length of a format, as the property states it (8 or 10 bytes) *)
Definition chal_min (f : Z) : Z :=
  if ((f =? 1) || (f =? 3) || (f =? 5))%Z then 8%Z
  else if ((f =? 2) || (f =? 4) || (f =? 6))%Z then 10%Z else 0%Z.
Definition pw_len (h : Z) : Z := if (h =? 1)%Z then 20%Z else if (h =? 2)%Z then 32%Z else 64%Z.

Definition enum_ok (cfg : suite_cfg) : Prop :=
  (0 <= sc_challenge cfg <= 6)%Z /\ (sc_p cfg = true -> 1 <= sc_pwhash cfg <= 3)%Z.

Definition admissible (cfg : suite_cfg) (i : ocra_input) : Prop :=
  (sc_c cfg = true -> zlen (oi_counter i) = 8%Z) /\
  (sc_q cfg = true -> (chal_min (sc_challenge cfg) <= zlen (oi_challenge i) <= 128)%Z) /\
  (sc_p cfg = true -> zlen (oi_password i) = pw_len (sc_pwhash cfg)) /\
  (sc_s cfg = true -> (zlen (oi_session i) <= 128)%Z) /\
  (sc_t cfg = true -> zlen (oi_timestamp i) = 8%Z).

Lemma challenge_length_chal_min f : challenge_length f = chal_min f.
Proof. reflexivity. Qed.

Theorem input_validate_iff cfg i : enum_ok cfg -> (input_validate cfg i = None <-> admissible cfg i).
Proof.
  intros [Hch Hpw]. unfold input_validate, admissible. rewrite challenge_length_chal_min.
  change c_PasswordSHA1 with 1%Z; change c_PasswordSHA256 with 2%Z; change c_PasswordSHA512 with 3%Z.
  unfold pw_len.
  destruct (sc_c cfg), (sc_q cfg), (sc_p cfg), (sc_s cfg), (sc_t cfg); cbn [andb];
  repeat match goal with |- context [if ?b then _ else _] => let E := fresh "E" in destruct b eqn:E end;
  split; intros H; try discriminate; try reflexivity; try (exfalso; lia);
  try (repeat split; try discriminate; intros; lia).
Qed.

Lemma admissible_valid cfg i : admissible cfg i -> input_validate cfg i = None.
Proof.
  unfold input_validate, admissible. change (challenge_length (sc_challenge cfg)) with (chal_min (sc_challenge cfg)).
  change c_PasswordSHA1 with 1%Z; change c_PasswordSHA256 with 2%Z; change c_PasswordSHA512 with 3%Z.
  unfold pw_len.
  destruct (sc_c cfg), (sc_q cfg), (sc_p cfg), (sc_s cfg), (sc_t cfg); cbn [andb];
  repeat match goal with |- context [if ?b then _ else _] => let E := fresh "E" in destruct b eqn:E end;
  intros (Hc & Hq & Hp & Hs & Ht); try reflexivity; exfalso;
  repeat match goal with H : true = true -> _ |- _ => specialize (H eq_refl) end; lia.
Qed.

(** ---------------- padBytes ---------------- *)
Lemma pad_bytes_rpad b n : (length b <= n)%nat -> pad_bytes b (Z.of_nat n) = Ok (rpad n b).
Proof.
  intros H. unfold pad_bytes, rpad. destruct (Z.of_nat n <? 0)%Z eqn:E; [lia|].
  rewrite Nat2Z.id. destruct (Nat.leb n (length b)) eqn:E2.
  - apply Nat.leb_le in E2. assert (n = length b) as -> by lia.
    rewrite firstn_all, Nat.sub_diag. simpl. rewrite app_nil_r. reflexivity.
  - reflexivity.
Qed.

Lemma rpad_exact b n : length b = n -> rpad n b = b.
Proof. intros <-. unfold rpad. rewrite Nat.sub_diag. apply app_nil_r. Qed.

(** selection of the fields by the suite *)
Definition sel (b : bool) (x : bytes) : option bytes := if b then Some x else None.

Lemma ocra_message_spec cfg i :
  admissible cfg i ->
  ocra_message cfg i = Ok (ocra_msg (sc_raw cfg) (sel (sc_c cfg) (oi_counter i)) (sel (sc_q cfg) (oi_challenge i))
                                    (sel (sc_p cfg) (oi_password i)) (sel (sc_s cfg) (oi_session i))
                                    (sel (sc_t cfg) (oi_timestamp i))).
Proof.
  intros (Hc & Hq & Hp & Hs & Ht). unfold ocra_message, ocra_msg, sel, zlen in *.
  change separator with 0.
  assert (forall b, Z.of_nat (length b) = 8%Z -> pad_bytes b 8 = Ok b) as P8.
  { intros b Hb. change 8%Z with (Z.of_nat 8). rewrite pad_bytes_rpad by lia. rewrite rpad_exact by lia. reflexivity. }
  assert (forall b, (Z.of_nat (length b) <= 128)%Z -> pad_bytes b 128 = Ok (rpad 128 b)) as P128.
  { intros b Hb. change 128%Z with (Z.of_nat 128). apply pad_bytes_rpad. lia. }
  destruct (sc_c cfg), (sc_q cfg), (sc_p cfg), (sc_s cfg), (sc_t cfg); cbn [fld_as_is fld_rpad];
    repeat first [ rewrite P8 by auto | rewrite P128 by (first [apply Hq; reflexivity | apply Hs; reflexivity]) ];
    cbn [obind]; rewrite <- ?app_assoc; cbn [app]; rewrite ?app_nil_r; reflexivity.
Qed.

(** inputs that agree on the selected fields *)
Definition agree (cfg : suite_cfg) (i j : ocra_input) : Prop :=
  (sc_c cfg = true -> oi_counter i = oi_counter j) /\
  (sc_q cfg = true -> oi_challenge i = oi_challenge j) /\
  (sc_p cfg = true -> oi_password i = oi_password j) /\
  (sc_s cfg = true -> oi_session i = oi_session j) /\
  (sc_t cfg = true -> oi_timestamp i = oi_timestamp j).

Lemma input_validate_agree cfg i j : agree cfg i j -> input_validate cfg i = input_validate cfg j.
Proof.
  intros (Hc & Hq & Hp & Hs & Ht). unfold input_validate.
  destruct (sc_c cfg), (sc_q cfg), (sc_p cfg), (sc_s cfg), (sc_t cfg); cbn [andb];
    rewrite ?(Hc eq_refl), ?(Hq eq_refl), ?(Hp eq_refl), ?(Hs eq_refl), ?(Ht eq_refl); reflexivity.
Qed.

Lemma ocra_message_agree cfg i j : agree cfg i j -> ocra_message cfg i = ocra_message cfg j.
Proof.
  intros (Hc & Hq & Hp & Hs & Ht). unfold ocra_message.
  destruct (sc_c cfg), (sc_q cfg), (sc_p cfg), (sc_s cfg), (sc_t cfg);
    rewrite ?(Hc eq_refl), ?(Hq eq_refl), ?(Hp eq_refl), ?(Hs eq_refl), ?(Ht eq_refl); reflexivity.
Qed.

Lemma pad_bytes_no_panic b n : (0 <= n)%Z -> pad_bytes b n <> Panic.
Proof. intros H. unfold pad_bytes. destruct (n <? 0)%Z eqn:E; [lia|]. destruct (Nat.leb _ _); discriminate. Qed.

Lemma ocra_message_total cfg i : exists m, ocra_message cfg i = Ok m.
Proof.
  unfold ocra_message, pad_bytes. cbn [Z.ltb Z.compare].
  destruct (sc_c cfg), (sc_q cfg), (sc_p cfg), (sc_s cfg), (sc_t cfg);
    repeat match goal with |- context [if ?b then _ else _] => destruct b end; cbn [obind]; eexists; reflexivity.
Qed.

Section WithHmac.
  Set Default Proof Using "All".
  Variable hm : alg -> bytes -> bytes -> bytes.
  Hypothesis hm_length : forall a k m, length (hm a k m) = hlen a.
  Hypothesis hm_wf : forall a k m, wfb (hm a k m).

  Lemma usable_alg cfg : usable cfg -> exists a, sc_hash cfg = N_of_alg a /\ alg_of_N (sc_hash cfg) = Some a.
  Proof.
    intros (_ & Hh & _).
    assert (sc_hash cfg = 0 \/ sc_hash cfg = 1 \/ sc_hash cfg = 2) as [->|[->| ->]] by lia;
      [exists SHA1|exists SHA256|exists SHA512]; split; reflexivity.
  Qed.

  (** C05: the derived code is the RFC 6287 value *)
  Theorem derive_rfc6287_spec key cfg i a :
    usable cfg -> admissible cfg i -> sc_hash cfg = N_of_alg a ->
    derive_rfc6287_with hm key cfg i =
    Ok (ocra_value hm a key (sc_raw cfg) (sel (sc_c cfg) (oi_counter i)) (sel (sc_q cfg) (oi_challenge i))
                   (sel (sc_p cfg) (oi_password i)) (sel (sc_s cfg) (oi_session i))
                   (sel (sc_t cfg) (oi_timestamp i)) (Z.to_nat (sc_digits cfg))).
  Proof.
    intros Hu Ha Hh. unfold derive_rfc6287_with.
    assert (suite_validate cfg = None) as -> by (apply suite_validate_iff; exact Hu).
    rewrite (admissible_valid cfg i Ha).
    rewrite ocra_message_spec by exact Ha. cbn [obind]. rewrite Hh.
    assert (alg_of_N (N_of_alg a) = Some a) as -> by (destruct a; reflexivity).
    destruct Hu as (Hd & _).
    rewrite mod10_at_spec by lia. cbn [obind].
    rewrite truncate_spec;
      [| apply hm_wf | rewrite hm_length; destruct a; simpl; lia | apply N.pow_nonzero; discriminate ].
    cbn [obind]. unfold format_decimal. rewrite long_digit_spec by lia.
    unfold ocra_value. replace (N.of_nat (Z.to_nat (sc_digits cfg))) with (Z.to_N (sc_digits cfg)) by lia.
    reflexivity.
  Qed.

  (** the derivation never panics *)
  Theorem derive_rfc6287_total key cfg i : derive_rfc6287_with hm key cfg i <> Panic.
  Proof.
    unfold derive_rfc6287_with.
    destruct (suite_validate cfg) as [e|] eqn:Es; [discriminate|].
    destruct (input_validate cfg i) as [e|]; [discriminate|].
    apply suite_validate_iff in Es. destruct (usable_alg cfg Es) as (a & Hh & Ha).
    destruct (ocra_message_total cfg i) as [m ->]. cbn [obind]. rewrite Ha.
    destruct Es as (Hd & _).
    rewrite mod10_at_spec by lia. cbn [obind].
    rewrite truncate_spec;
      [| apply hm_wf | rewrite hm_length; destruct a; simpl; lia | apply N.pow_nonzero; discriminate ].
    cbn [obind]. unfold format_decimal. rewrite long_digit_spec by lia. discriminate.
  Qed.

  (** a derived code has exactly cfg.Digits characters *)
  Lemma derive_rfc6287_length key cfg i code :
    derive_rfc6287_with hm key cfg i = Ok code -> zlen code = sc_digits cfg.
  Proof.
    unfold derive_rfc6287_with.
    destruct (suite_validate cfg) as [e|] eqn:Es; [discriminate|].
    destruct (input_validate cfg i) as [e|]; [discriminate|].
    apply suite_validate_iff in Es. destruct (usable_alg cfg Es) as (a & Hh & Ha).
    destruct (ocra_message_total cfg i) as [m ->]. cbn [obind]. rewrite Ha.
    destruct Es as (Hd & _).
    rewrite mod10_at_spec by lia. cbn [obind].
    rewrite truncate_spec;
      [| apply hm_wf | rewrite hm_length; destruct a; simpl; lia | apply N.pow_nonzero; discriminate ].
    cbn [obind]. unfold format_decimal. rewrite long_digit_spec by lia.
    intros H. inversion H. unfold zlen. rewrite pad_dec_length. lia.
  Qed.

  Theorem generate_ocra_value secret key cfg i a :
    decode_secret secret = Ok key -> usable cfg -> admissible cfg i -> sc_hash cfg = N_of_alg a ->
    generate_ocra_with hm secret cfg i =
    Ok (ocra_value hm a key (sc_raw cfg) (sel (sc_c cfg) (oi_counter i)) (sel (sc_q cfg) (oi_challenge i))
                   (sel (sc_p cfg) (oi_password i)) (sel (sc_s cfg) (oi_session i))
                   (sel (sc_t cfg) (oi_timestamp i)) (Z.to_nat (sc_digits cfg))).
  Proof.
    intros Hk Hu Ha Hh. unfold generate_ocra_with. rewrite Hk. cbn [obind].
    apply derive_rfc6287_spec; assumption.
  Qed.

  (** fields the suite does not select have no influence on the outcome (code or error) *)
  Theorem generate_ocra_unselected secret cfg i j :
    agree cfg i j -> generate_ocra_with hm secret cfg i = generate_ocra_with hm secret cfg j.
  Proof.
    intros Hag. unfold generate_ocra_with, derive_rfc6287_with.
    rewrite (input_validate_agree cfg i j Hag), (ocra_message_agree cfg i j Hag). reflexivity.
  Qed.

  (** admission: generation gets past admission exactly when the secret decodes, the suite is
      usable and the input admissible *)
  Theorem generate_ocra_admits secret cfg i :
    enum_ok cfg ->
    ((exists code, generate_ocra_with hm secret cfg i = Ok code)
     <-> (exists key, decode_secret secret = Ok key) /\ usable cfg /\ admissible cfg i).
  Proof.
    intros He. split.
    - intros [code H]. unfold generate_ocra_with in H.
      destruct (decode_secret secret) as [key|e|] eqn:Hk; try discriminate. cbn [obind] in H.
      split; [eexists; reflexivity|]. unfold derive_rfc6287_with in H.
      destruct (suite_validate cfg) eqn:Es; [discriminate|].
      destruct (input_validate cfg i) eqn:Ei; [discriminate|].
      split; [apply suite_validate_iff; exact Es|apply input_validate_iff; assumption].
    - intros ([key Hk] & Hu & Ha). destruct (usable_alg cfg Hu) as (a & Hh & _).
      eexists. apply (generate_ocra_value secret key cfg i a); assumption.
  Qed.

  (** C06: validation accepts a string iff generation returns it *)
  Theorem validate_ocra_iff secret code cfg i :
    fst (validate_ocra_with hm secret code cfg i) = Ok (true, None)
    <-> generate_ocra_with hm secret cfg i = Ok code.
  Proof.
    unfold validate_ocra_with, generate_ocra_with.
    destruct (decode_secret secret) as [key|e|] eqn:Hk; cbn [obind fst].
    - unfold validate.
      destruct (derive_rfc6287_with hm key cfg i) as [exp|e|] eqn:Hd.
      + pose proof (derive_rfc6287_length key cfg i exp Hd) as Hl.
        destruct (zlen code =? sc_digits cfg)%Z eqn:El; cbn [negb fst].
        * destruct (bytes_eqb code exp) eqn:Eb; cbn [fst].
          -- apply bytes_eqb_eq in Eb. subst. split; reflexivity.
          -- split; [discriminate|]. intros H. inversion H; subst. rewrite bytes_eqb_refl in Eb. discriminate.
        * split; [discriminate|]. intros H. inversion H; subst. lia.
      + destruct (negb (zlen code =? sc_digits cfg)%Z); cbn [fst]; split; discriminate.
      + exfalso. exact (derive_rfc6287_total key cfg i Hd).
    - split; discriminate.
    - exfalso. exact (decode_secret_no_panic _ Hk).
  Qed.

  (** whenever generation fails, validation returns false together with an error; and in
      every case the verdict is (true, nil) or (false, error), never a panic *)
  Theorem validate_ocra_verdict secret code cfg i :
    exists k, validate_ocra_with hm secret code cfg i = (Ok (true, None), k)
           \/ exists e, validate_ocra_with hm secret code cfg i = (Ok (false, Some e), k).
  Proof.
    unfold validate_ocra_with.
    destruct (decode_secret secret) as [key|e|] eqn:Hk.
    - apply validate_shape. apply derive_rfc6287_total.
    - eexists; right; eexists; reflexivity.
    - exfalso. exact (decode_secret_no_panic _ Hk).
  Qed.

  Theorem validate_ocra_fail secret code cfg i e :
    generate_ocra_with hm secret cfg i = Err e ->
    exists e' k, validate_ocra_with hm secret code cfg i = (Ok (false, Some e'), k).
  Proof.
    intros Hg. destruct (validate_ocra_verdict secret code cfg i) as [k [H|[e' H]]].
    - exfalso. assert (fst (validate_ocra_with hm secret code cfg i) = Ok (true, None)) as Ht by (rewrite H; reflexivity).
      apply validate_ocra_iff in Ht. congruence.
    - exists e', k. exact H.
  Qed.

  Theorem generate_ocra_total secret cfg i : generate_ocra_with hm secret cfg i <> Panic.
  Proof.
    unfold generate_ocra_with. destruct (decode_secret secret) as [key|e|] eqn:Hk; cbn [obind].
    - apply derive_rfc6287_total.
    - discriminate.
    - exfalso. exact (decode_secret_no_panic _ Hk).
  Qed.
End WithHmac.
