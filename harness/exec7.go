package main

func run7(f []string) (string, bool) {
	switch f[0] {
	case "rreq":
		return doRest(f), true
	case "rburst":
		return doBurst(f), true
	}
	return run8(f)
}
