(** The WebAssembly binding computes what the native library computes (C20). *)
From Coq Require Import String ZifyN ZifyNat ZifyBool.
From OtpV Require Import Prelude Sha Tables JsExports Errors Decoder Derive Otp Utils Suite Url Wasm Rfc4226
     BitLemmas DeriveProofs OtpProofs SuiteProofs.
Open Scope N_scope.
Ltac Zify.zify_post_hook ::= Z.to_euclidean_division_equations.

(** ---------- FormatUint + zero padding = the fixed-width decimal code ---------- *)
Lemma dec_digits_fuel_length fuel : forall n acc d,
  (1 <= d)%nat -> n < 10 ^ N.of_nat d -> (length (dec_digits_fuel fuel n acc) <= d + length acc)%nat.
Proof.
  induction fuel as [|f IH]; intros n acc d Hd Hn; cbn [dec_digits_fuel]; [lia|].
  destruct (N.eqb_spec (n / 10) 0) as [E|E]; [cbn [length]; lia|].
  destruct d as [|d']; [lia|]. destruct d' as [|d''].
  - cbn in Hn. lia.
  - specialize (IH (n / 10) ((48 + n mod 10) :: acc) (S d'') ltac:(lia)).
    assert (n / 10 < 10 ^ N.of_nat (S d'')) as Hlt.
    { rewrite (Nat2N.inj_succ (S d'')), N.pow_succ_r' in Hn. lia. }
    specialize (IH Hlt). cbn [length] in IH. lia.
Qed.

Lemma dec_of_N_length n d : (1 <= d)%nat -> n < 10 ^ N.of_nat d -> (length (dec_of_N n) <= d)%nat.
Proof. intros Hd Hn. unfold dec_of_N. pose proof (dec_digits_fuel_length (S (N.to_nat (N.log2 n))) n [] d Hd Hn). cbn [length] in *. lia. Qed.

Lemma dec_value_zeros k s : dec_value (repeat 48 k ++ s) = dec_value s.
Proof.
  unfold dec_value. rewrite fold_left_app.
  assert (fold_left (fun acc c => acc * 10 + (c - 48)) (repeat 48 k) 0 = 0) as ->; [|reflexivity].
  induction k as [|k IH]; [reflexivity|]. cbn [repeat fold_left]. exact IH.
Qed.

Theorem zero_padded_decimal n d : (1 <= d)%nat -> n < 10 ^ N.of_nat d ->
  repeat 48 (d - length (dec_of_N n)) ++ dec_of_N n = pad_dec d n.
Proof.
  intros Hd Hn. destruct (dec_of_N_spec n) as [Hne [Hdig Hval]].
  pose proof (dec_of_N_length n d Hd Hn) as Hl.
  apply (is_code_unique d n); [|apply pad_dec_is_code; exact Hn].
  unfold is_code. repeat split.
  - rewrite app_length, repeat_length. lia.
  - apply Forall_app. split; [apply Forall_forall; intros x Hx; apply repeat_spec in Hx; subst; unfold is_digit; lia|].
    unfold digits_only in Hdig. unfold is_digit. exact Hdig.
  - rewrite dec_value_zeros. rewrite <- UtilsProofs.dec_val_dec_value. exact Hval.
Qed.

Lemma pow10_wasm_10 : pow10_wasm 10 = 10 ^ 10.
Proof. vm_compute. reflexivity. Qed.

Section WithHmac.
  Variable hm : alg -> bytes -> bytes -> bytes.
  Hypothesis hm_length : forall a k m, length (hm a k m) = hlen a.
  Hypothesis hm_wf : forall a k m, wfb (hm a k m).

  (** DeriveRFC4226Wasm = deriveRFC4226, for every key, counter, code length and hash value *)
  Theorem derive_wasm_native key c d algo :
    derive_wasm_with hm key c d algo = derive_rfc4226_with hm key c d algo.
  Proof.
    unfold derive_wasm_with.
    destruct (alg_of_N algo) as [a|] eqn:Ea.
    - assert (algo = N_of_alg a) as -> by (destruct algo as [|[[|[]|]|[]|]]; inversion Ea; reflexivity).
      destruct ((d <? 1)%Z || (10 <? d)%Z) eqn:Ed.
      + unfold derive_rfc4226_with. rewrite mod10_length.
        assert (n_hmac_pools <=? N_of_alg a = false) as -> by (destruct a; reflexivity).
        replace ((d <? 1)%Z || (Z.of_nat 11 <=? d)%Z) with true by lia. reflexivity.
      + rewrite (derive_rfc4226_spec hm hm_length hm_wf) by lia.
        assert ((if (1 <=? d)%Z && (d <=? 9)%Z then mod10_at d else Ok (pow10_wasm (Z.to_nat d))) = Ok (10 ^ Z.to_N d)) as ->.
        { destruct ((1 <=? d)%Z && (d <=? 9)%Z) eqn:E9; [apply mod10_at_spec; lia|].
          assert (d = 10%Z) as -> by lia. change (Z.to_nat 10) with 10%nat. rewrite pow10_wasm_10. reflexivity. }
        cbn [obind].
        rewrite truncate_spec; [|apply hm_wf|rewrite hm_length; destruct a; simpl; lia|apply N.pow_nonzero; discriminate].
        cbn [obind]. unfold hotp_value, hotp_number. rewrite put_uint64_be64.
        replace (N.of_nat (Z.to_nat d)) with (Z.to_N d) by lia.
        f_equal. apply zero_padded_decimal; [lia|].
        replace (N.of_nat (Z.to_nat d)) with (Z.to_N d) by lia. apply N.mod_lt. apply N.pow_nonzero. discriminate.
    - unfold derive_rfc4226_with. change n_hmac_pools with 3.
      replace (3 <=? algo) with true; [reflexivity|].
      symmetry. apply N.leb_le. destruct algo as [|[[|[]|]|[]|]]; try discriminate; lia.
  Qed.

  (** ValidateOTPWasm = validateRFC4226 *)
  Theorem validate_wasm_native code key c d algo :
    validate_otp_wasm_with hm code key c d algo = fst (validate_rfc4226 hm code key c d algo).
  Proof.
    unfold validate_otp_wasm_with, validate_rfc4226, validate. rewrite derive_wasm_native.
    destruct (negb (zlen code =? Z.of_N d)%Z); [reflexivity|].
    destruct (derive_rfc4226_with hm key c (Z.of_N d) algo) as [e| |]; [|reflexivity|reflexivity].
    destruct (bytes_eqb code e); reflexivity.
  Qed.

  Lemma fst_accept code key c d algo :
    (match fst (validate_rfc4226 hm code key c d algo) with Ok (true, None) => true | _ => false end) = true <->
    fst (validate_rfc4226 hm code key c d algo) = Ok (true, None).
  Proof.
    destruct (validate_rfc4226_shape hm hm_length hm_wf code key c d algo) as [k [H|[e H]]]; rewrite H; cbn [fst]; split; congruence.
  Qed.

  (** the HOTP window loop of the binding and the native one accept the same strings *)
  Theorem w_hotp_loop_native offs code key counter d algo cost :
    (0 <= counter)%Z -> (counter + 10 < 2 ^ 62)%Z -> Forall (fun i => (-10 <= i <= 10)%Z) offs ->
    w_hotp_loop hm offs code key counter d algo = true <->
    fst (hotp_loop hm offs code key (Z.to_N counter) d algo cost) = Ok (true, None).
  Proof.
    intros H0 Hc. revert cost. induction offs as [|i rest IH]; intros cost Hoffs.
    - cbn. split; discriminate.
    - apply Forall_cons_iff in Hoffs. destruct Hoffs as [Hi Hrest].
      cbn [w_hotp_loop hotp_loop].
      assert (wrap_int64 (counter + i) = (counter + i)%Z) as Hw.
      { unfold wrap_int64, to_int64, of_int64, two63, two64.
        change (Z.of_N 18446744073709551616) with 18446744073709551616%Z.
        destruct (Z.ltb_spec (counter + i) 0).
        - assert ((counter + i) mod 18446744073709551616 = counter + i + 18446744073709551616)%Z as -> by lia.
          destruct (N.ltb_spec (Z.to_N (counter + i + 18446744073709551616)) 9223372036854775808); lia.
        - rewrite Z.mod_small by lia. destruct (N.ltb_spec (Z.to_N (counter + i)) 9223372036854775808); lia. }
      rewrite Hw.
      assert (((i <? 0)%Z && (Z.to_N counter <? of_int64 (- i))) = (counter + i <? 0)%Z) as Hskip.
      { unfold of_int64, two64. change (Z.of_N 18446744073709551616) with 18446744073709551616%Z.
        destruct (Z.ltb_spec i 0); cbn [andb]; [|lia].
        rewrite Z.mod_small by lia. lia. }
      rewrite Hskip.
      destruct (Z.ltb_spec (counter + i) 0) as [Hneg|Hpos]; [apply IH; exact Hrest|].
      assert ((if (i <? 0)%Z then sub64 (Z.to_N counter) (of_int64 (- i)) else wrap64 (Z.to_N counter + of_int64 i)) = of_int64 (counter + i)) as Hcc.
      { unfold sub64, wrap64, of_int64, two64. change (Z.of_N 18446744073709551616) with 18446744073709551616%Z.
        destruct (Z.ltb_spec i 0).
        - rewrite (Z.mod_small (- i)) by lia. rewrite (Z.mod_small (counter + i)) by lia.
          rewrite (N.mod_small (Z.to_N (- i))) by lia. apply N2Z.inj. rewrite N2Z.inj_mod. lia.
        - rewrite (Z.mod_small i) by lia. rewrite (Z.mod_small (counter + i)) by lia. rewrite N.mod_small by lia. lia. }
      rewrite Hcc. rewrite validate_wasm_native.
      destruct (validate_rfc4226_shape hm hm_length hm_wf code key (of_int64 (counter + i)) d algo) as [k [H|[e H]]]; rewrite H; cbn [fst].
      + split; reflexivity.
      + apply IH. exact Hrest.
  Qed.

  (** the TOTP window loops are the same loop *)
  Theorem w_totp_loop_native offs code key counter d algo cost :
    w_totp_loop hm offs code key counter d algo = true <->
    fst (totp_loop hm offs code key counter d algo cost) = Ok (true, None).
  Proof.
    revert cost. induction offs as [|i rest IH]; intros cost.
    - cbn. split; discriminate.
    - cbn [w_totp_loop totp_loop]. rewrite validate_wasm_native.
      destruct (validate_rfc4226_shape hm hm_length hm_wf code key (wrap64 (counter + of_int64 i)) d algo) as [k [H|[e H]]]; rewrite H; cbn [fst].
      + split; reflexivity.
      + apply IH.
  Qed.
End WithHmac.

(** ---------- the callbacks, as JavaScript sees them ---------- *)
Definition is_error (r : wres) : Prop := exists t, r = WStr (s2b "error: " ++ t).

Lemma js_result_err {e} : is_error (js_result (inr e)).
Proof. destruct e as [t|t]; eexists; reflexivity. Qed.

Lemma parse_string_ok s name : s <> [] -> parse_string_arg (JStr s) name = inl s.
Proof. intros H. destruct s; [congruence|reflexivity]. Qed.

Lemma js_int_small z : (0 <= z < 2 ^ 63)%Z -> js_int (NInt z) = z /\ js_int (NFrac z) = z.
Proof. intros H. unfold js_int, in_int64, min_int64. split; destruct (_ && _) eqn:E; lia. Qed.

Lemma parse_int_ok n z name : js_int n = z -> (0 <= z)%Z -> parse_int_arg (JNum n) name = inl z.
Proof. intros H Hz. unfold parse_int_arg. cbn [js_type_name]. rewrite H. destruct (Z.ltb_spec z 0); [lia|reflexivity]. Qed.

Lemma of_int64_nonneg z : (0 <= z < 2 ^ 63)%Z -> of_int64 z = Z.to_N z.
Proof. intros H. unfold of_int64, two64. change (Z.of_N 18446744073709551616) with 18446744073709551616%Z. rewrite Z.mod_small by lia. reflexivity. Qed.

(** an integral or fractional JavaScript number whose truncation is [z] *)
Definition js_number (z : Z) (v : jsval) : Prop := v = JNum (NInt z) \/ v = JNum (NFrac z).

Lemma parse_int_number z v name : js_number z v -> (0 <= z < 2 ^ 63)%Z -> parse_int_arg v name = inl z.
Proof. intros [-> | ->] H; apply parse_int_ok; try lia; apply js_int_small; exact H. Qed.

Theorem wasm_generate_hotp_native secret c vc d al per sk :
  secret <> [] -> d <> [] -> al <> [] -> (0 <= c < 2 ^ 63)%Z -> js_number c vc ->
  match generate_hotp secret (Z.to_N c) (Some (mkParam (digits_from_str d) per sk (algorithm_from_str al))) with
  | Ok code => js_result (wasm_generate_hotp [JStr secret; vc; JStr d; JStr al]) = WStr code
  | _ => is_error (js_result (wasm_generate_hotp [JStr secret; vc; JStr d; JStr al]))
  end.
Proof.
  intros Hs Hd Ha Hc Hv. unfold wasm_generate_hotp, w_generate_hotp, generate_hotp, generate_hotp_with. cbn [length Nat.eqb negb arg nth].
  rewrite (parse_string_ok secret) by exact Hs. cbn [wbind].
  rewrite (parse_int_number c vc) by assumption. cbn [wbind].
  rewrite (parse_string_ok d), (parse_string_ok al) by assumption. cbn [wbind p_digits p_alg].
  unfold generate_otp_wasm. rewrite of_int64_nonneg by exact Hc.
  destruct (decode_secret secret) as [key|e|]; cbn [obind wbind]; try apply js_result_err.
  rewrite (derive_wasm_native hmac hmac_length hmac_wf).
  destruct (derive_rfc4226_with hmac key (Z.to_N c) (Z.of_N (digits_from_str d)) (algorithm_from_str al)); cbn [wbind];
    [reflexivity|apply js_result_err|apply js_result_err].
Qed.

Theorem wasm_generate_totp_native secret t vt d al per vper sk :
  secret <> [] -> d <> [] -> al <> [] -> (0 <= t < 2 ^ 63)%Z -> js_number t vt -> (1 <= per <= 3600)%Z -> js_number per vper ->
  match generate_totp secret t (Some (mkParam (digits_from_str d) (Z.to_N per) sk (algorithm_from_str al))) with
  | Ok code => js_result (wasm_generate_totp [JStr secret; vt; JStr d; JStr al; vper]) = WStr code
  | _ => is_error (js_result (wasm_generate_totp [JStr secret; vt; JStr d; JStr al; vper]))
  end.
Proof.
  intros Hs Hd Ha Ht Hvt Hp Hvp. unfold wasm_generate_totp, w_generate_totp, generate_totp, generate_totp_with. cbn [length Nat.eqb negb arg nth].
  rewrite (parse_string_ok secret) by exact Hs. cbn [wbind].
  rewrite (parse_int_number t vt) by assumption. cbn [wbind].
  rewrite (parse_string_ok d), (parse_string_ok al) by assumption. cbn [wbind].
  rewrite (parse_int_number per vper) by (try assumption; lia). cbn [wbind p_digits p_alg p_period].
  replace ((per <=? 0)%Z || (3600 <? per)%Z) with false by lia.
  change totp_gen_zero_period with (Some 30). unfold eff_period.
  replace (Z.to_N per =? 0) with false by lia.
  unfold generate_otp_wasm.
  destruct (decode_secret secret) as [key|e|]; cbn [obind].
  - unfold time_counter. replace (Z.to_N per =? 0) with false by lia. cbn [obind wbind].
    rewrite (derive_wasm_native hmac hmac_length hmac_wf).
    destruct (derive_rfc4226_with hmac key _ _ _); cbn [wbind]; [reflexivity|apply js_result_err|apply js_result_err].
  - unfold time_counter. replace (Z.to_N per =? 0) with false by lia. cbn [wbind]. apply js_result_err.
  - unfold time_counter. replace (Z.to_N per =? 0) with false by lia. cbn [wbind]. apply js_result_err.
Qed.

(** validation: when the secret decodes, the binding answers the boolean the native library's
    verdict says; when it does not, an error string *)
Theorem wasm_validate_hotp_native secret code c vc d al sk vsk per :
  secret <> [] -> code <> [] -> d <> [] -> al <> [] -> (0 <= c)%Z -> (c + 10 < 2 ^ 62)%Z -> js_number c vc ->
  (0 <= sk <= 10)%Z -> js_number sk vsk ->
  let args := [JStr secret; JStr code; vc; JStr d; JStr al; vsk] in
  match decode_secret secret with
  | Ok _ => exists b, js_result (wasm_validate_hotp args) = WBool b /\
                      (b = true <-> fst (validate_hotp secret code (Z.to_N c) (Some (mkParam (digits_from_str d) per (Z.to_N sk) (algorithm_from_str al)))) = Ok (true, None))
  | _ => is_error (js_result (wasm_validate_hotp args))
  end.
Proof.
  intros Hs Hco Hd Ha Hc0 Hc Hvc Hsk Hvsk. cbv zeta.
  unfold wasm_validate_hotp, w_validate_hotp, validate_hotp, validate_hotp_with. cbn [length Nat.eqb negb arg nth].
  rewrite (parse_string_ok secret), (parse_string_ok code) by assumption. cbn [wbind].
  rewrite (parse_int_number c vc) by (try assumption; lia). cbn [wbind].
  rewrite (parse_string_ok d), (parse_string_ok al) by assumption. cbn [wbind].
  rewrite (parse_int_number sk vsk) by (try assumption; lia). cbn [wbind p_skew p_digits p_alg].
  replace ((sk <? 0)%Z || (10 <? sk)%Z) with false by lia.
  change hotp_max_skew with (Some 10). unfold skew_refused. replace (10 <? Z.to_N sk) with false by lia.
  destruct (decode_secret secret) as [key|e|]; try apply js_result_err.
  eexists. split; [reflexivity|].
  apply (w_hotp_loop_native hmac hmac_length hmac_wf); [exact Hc0|exact Hc|].
  apply Forall_forall. intros i Hi. apply (in_offsets hmac hmac_length hmac_wf) in Hi. lia.
Qed.

Theorem wasm_validate_totp_native secret code t vt d al sk vsk per vper :
  secret <> [] -> code <> [] -> d <> [] -> al <> [] -> (0 <= t < 2 ^ 63)%Z -> js_number t vt ->
  (0 <= sk <= 10)%Z -> js_number sk vsk -> (1 <= per < 2 ^ 63)%Z -> js_number per vper ->
  let args := [JStr secret; JStr code; vt; JStr d; JStr al; vsk; vper] in
  match decode_secret secret with
  | Ok _ => exists b, js_result (wasm_validate_totp args) = WBool b /\
                      (b = true <-> fst (validate_totp secret code t (Some (mkParam (digits_from_str d) (Z.to_N per) (Z.to_N sk) (algorithm_from_str al)))) = Ok (true, None))
  | _ => is_error (js_result (wasm_validate_totp args))
  end.
Proof.
  intros Hs Hco Hd Ha Ht Hvt Hsk Hvsk Hp Hvp. cbv zeta.
  unfold wasm_validate_totp, w_validate_totp, validate_totp, validate_totp_with. cbn [length Nat.eqb negb arg nth].
  rewrite (parse_string_ok secret), (parse_string_ok code) by assumption. cbn [wbind].
  rewrite (parse_int_number t vt) by (try assumption; lia). cbn [wbind].
  replace (t <? 0)%Z with false by lia.
  rewrite (parse_string_ok d), (parse_string_ok al) by assumption. cbn [wbind].
  rewrite (parse_int_number sk vsk) by (try assumption; lia). cbn [wbind].
  replace ((sk <? 0)%Z || (10 <? sk)%Z) with false by lia.
  rewrite (parse_int_number per vper) by (try assumption; lia). cbn [wbind p_skew p_digits p_alg p_period].
  replace (per <=? 0)%Z with false by lia.
  change totp_max_skew with (Some 10). unfold skew_refused. replace (10 <? Z.to_N sk) with false by lia.
  change totp_val_zero_period with (Some 30). unfold eff_period. replace (Z.to_N per =? 0) with false by lia.
  destruct (decode_secret secret) as [key|e|]; try apply js_result_err.
  unfold time_counter. replace (Z.to_N per =? 0) with false by lia.
  eexists. split; [reflexivity|].
  apply (w_totp_loop_native hmac hmac_length hmac_wf).
Qed.

Theorem wasm_generate_url_native ty iss acc sec d al :
  iss <> [] -> acc <> [] -> sec <> [] -> d <> [] -> al <> [] -> (ty = s2b "totp" \/ ty = s2b "hotp") ->
  let p := mkUrlParam iss acc 0 sec (digits_from_str d) (algorithm_from_str al) in
  match (if beq ty (s2b "totp") then generate_totp_url p else generate_hotp_url p) with
  | Ok u => js_result (w_generate_otp_url [JStr ty; JStr iss; JStr acc; JStr sec; JStr d; JStr al]) = WStr (url_string u)
  | _ => is_error (js_result (w_generate_otp_url [JStr ty; JStr iss; JStr acc; JStr sec; JStr d; JStr al]))
  end.
Proof.
  intros Hi Hac Hs Hd Ha Hty. cbv zeta. unfold w_generate_otp_url. cbn [length Nat.eqb negb nth].
  assert (ty <> []) as Hne by (destruct Hty as [-> | ->]; discriminate).
  rewrite !parse_string_ok by assumption. cbn [wbind].
  destruct Hty as [-> | ->].
  - replace (beq (s2b "totp") (s2b "totp")) with true by reflexivity.
    destruct (generate_totp_url _); [reflexivity|apply js_result_err|apply js_result_err].
  - replace (beq (s2b "hotp") (s2b "totp")) with false by reflexivity.
    replace (beq (s2b "hotp") (s2b "hotp")) with true by reflexivity.
    destruct (generate_hotp_url _); [reflexivity|apply js_result_err|apply js_result_err].
Qed.

(** ---------- malformed calls ---------- *)
Definition js_string (v : jsval) : Prop := exists s, s <> [] /\ v = JStr s.
Definition js_nonneg (v : jsval) : Prop := exists n, v = JNum n /\ (0 <= js_int n)%Z.

Lemma parse_string_inl v name s : parse_string_arg v name = inl s -> js_string v.
Proof.
  unfold parse_string_arg. destruct v as [[|c t]|n|b| | | | | |]; cbn [js_type_name]; try discriminate.
  intros _. exists (c :: t). split; [discriminate|reflexivity].
Qed.
Lemma parse_int_inl v name z : parse_int_arg v name = inl z -> js_nonneg v.
Proof.
  unfold parse_int_arg. destruct v as [s|n|b| | | | | |]; cbn [js_type_name]; try discriminate.
  destruct (Z.ltb_spec (js_int n) 0); [discriminate|]. intros _. exists n. split; [reflexivity|assumption].
Qed.

Ltac peel_str H := match type of H with context [parse_string_arg ?v ?n] =>
  let E := fresh "E" in destruct (parse_string_arg v n) eqn:E; cbn [wbind] in H; [apply parse_string_inl in E|discriminate H] end.
Ltac peel_int H := match type of H with context [parse_int_arg ?v ?n] =>
  let E := fresh "E" in destruct (parse_int_arg v n) eqn:E; cbn [wbind] in H; [apply parse_int_inl in E|discriminate H] end.

(** a call that is not answered with an error string had the right number of arguments, each of
    the right type: strings non-empty, numbers with a non-negative integer part *)
Theorem wasm_success_well_typed args r :
  (wasm_generate_hotp args = inl r -> exists a b c d, args = [a; b; c; d] /\ js_string a /\ js_nonneg b /\ js_string c /\ js_string d) /\
  (wasm_generate_totp args = inl r -> exists a b c d e, args = [a; b; c; d; e] /\ js_string a /\ js_nonneg b /\ js_string c /\ js_string d /\ js_nonneg e) /\
  (wasm_validate_hotp args = inl r -> exists a b c d e f, args = [a; b; c; d; e; f] /\ js_string a /\ js_string b /\ js_nonneg c /\ js_string d /\ js_string e /\ js_nonneg f) /\
  (wasm_validate_totp args = inl r -> exists a b c d e f g, args = [a; b; c; d; e; f; g] /\ js_string a /\ js_string b /\ js_nonneg c /\ js_string d /\ js_string e /\ js_nonneg f /\ js_nonneg g) /\
  (w_generate_otp_url args = inl r -> exists a b c d e f, args = [a; b; c; d; e; f] /\ js_string a /\ js_string b /\ js_string c /\ js_string d /\ js_string e /\ js_string f).
Proof.
  repeat split.
  - unfold wasm_generate_hotp, w_generate_hotp. destruct args as [|a [|b [|c [|d [|x l]]]]]; try discriminate.
    cbn [length Nat.eqb negb arg nth]. intros H. peel_str H. peel_int H. peel_str H. peel_str H. exists a, b, c, d. auto.
  - unfold wasm_generate_totp, w_generate_totp. destruct args as [|a [|b [|c [|d [|e [|x l]]]]]]; try discriminate.
    cbn [length Nat.eqb negb arg nth]. intros H. peel_str H. peel_int H. peel_str H. peel_str H. peel_int H. exists a, b, c, d, e. auto 10.
  - unfold wasm_validate_hotp, w_validate_hotp. destruct args as [|a [|b [|c [|d [|e [|f [|x l]]]]]]]; try discriminate.
    cbn [length Nat.eqb negb arg nth]. intros H. peel_str H. peel_str H. peel_int H. peel_str H. peel_str H. peel_int H. exists a, b, c, d, e, f. auto 10.
  - unfold wasm_validate_totp, w_validate_totp. destruct args as [|a [|b [|c [|d [|e [|f [|g [|x l]]]]]]]]; try discriminate.
    cbn [length Nat.eqb negb arg nth]. intros H. peel_str H. peel_str H. peel_int H.
    destruct (_ <? 0)%Z; [discriminate H|]. peel_str H. peel_str H. peel_int H.
    destruct (_ || _); [discriminate H|]. peel_int H. exists a, b, c, d, e, f, g. auto 12.
  - unfold w_generate_otp_url. destruct args as [|a [|b [|c [|d [|e [|f [|x l]]]]]]]; try discriminate.
    cbn [length Nat.eqb negb nth]. intros H. peel_str H. peel_str H. peel_str H. peel_str H. peel_str H. peel_str H. exists a, b, c, d, e, f. auto 10.
Qed.

(** … and everything else is answered with a string starting with "error: " *)
Theorem wasm_failure_is_error_string (o : wout wres) : (forall r, o <> inl r) -> is_error (js_result o).
Proof. destruct o as [r|e]; intros H; [exfalso; apply (H r); reflexivity|apply js_result_err]. Qed.

(** ---------- the JavaScript export table (regenerated from index.js / main.go) ---------- *)
Definition export_ok (e : bytes * bytes) : bool := beq (fst e) (snd e) && existsb (fun g => beq (fst g) (snd e)) js_globals.
Theorem exports_faithful :
  forallb export_ok js_exports = true /\
  forallb (fun g => existsb (fun e => beq (fst e) (fst g)) js_exports) js_globals = true /\
  map fst js_globals = map snd js_globals.
Proof. vm_compute. repeat split. Qed.
