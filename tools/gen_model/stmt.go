package main

import (
	"fmt"
	"go/ast"
	"go/token"
	"go/types"
	"sort"
	"strings"
)

type fctx struct {
	t         *tr
	q         string // Go name
	sig       *types.Signature
	resT      string
	needsFuel bool
	pools     map[string]bool
	loops     []string
	nloop     *int
	nfor      *int
	ntmp      int
	pre       []string
	noBind    int
	cur       ast.Node
	names     map[*types.Var]string
	used      map[string]int
	params    []*types.Var // parameters of the function (in order), for loop closures
	locals    map[*types.Var]bool
	inout     []*types.Var        // pointer parameters that are written through: returned after the results
	ctxVar    string              // REST mode: the request context parameter
	zeroVars  map[*types.Var]bool // declared by `var x T` and not yet written
	recvVals  map[*types.Var]bool // pointer receivers taken by value (REST mode: read-only methods of the DTOs)
	vtype     map[*types.Var]string
}

// vT: the Coq type of a variable (json.Marshal's result is a JSON tree, not text)
func (fc *fctx) vT(n ast.Node, v *types.Var) string {
	if s, ok := fc.vtype[v]; ok {
		return s
	}
	return fc.t.coqType(n, v.Type())
}

// what follows a statement list: the term for falling off its end, for `continue` and for `break`
type konts struct {
	next, cont, brk string
}

func newFctx(t *tr, q string) *fctx {
	n, m := 0, 0
	return &fctx{nfor: &m, t: t, q: q, pools: map[string]bool{}, names: map[*types.Var]string{}, used: map[string]int{}, locals: map[*types.Var]bool{}, nloop: &n, zeroVars: map[*types.Var]bool{}, recvVals: map[*types.Var]bool{}, vtype: map[*types.Var]string{}}
}

func (fc *fctx) poolList() []string {
	var l []string
	for p := range fc.pools {
		l = append(l, p)
	}
	sort.Strings(l)
	return l
}

var coqReserved = map[string]bool{"mod": true, "in": true, "end": true, "fun": true, "let": true, "match": true, "with": true, "if": true, "then": true, "else": true, "return": true, "as": true, "at": true, "fix": true, "for": true, "forall": true, "exists": true, "Type": true, "Set": true, "Prop": true, "do": true, "fuel": true, "fuel0": true, "hmac": true, "offsets": true, "validate": true, "truncate": true, "sum": true, "hash": true, "split": true, "lookup": true, "derive": true, "param": true, "bytes": true, "err": true, "alg": true, "res": true, "byte": true, "length": true, "option": true, "bool": true, "nat": true, "list": true, "unit": true, "N": true, "Z": true, "map": true, "rev": true, "repeat": true, "slice": true, "idx": true}

func (fc *fctx) varName(v *types.Var) string {
	if n, ok := fc.names[v]; ok {
		return n
	}
	base := v.Name()
	if base == "_" {
		base = "blank"
	}
	if coqReserved[base] || fc.t.done[base] != nil || fc.t.decls[base] != nil {
		base = base + "_"
	}
	fc.used[base]++
	n := base
	if fc.used[base] > 1 {
		n = fmt.Sprintf("%s_%d", base, fc.used[base])
	}
	fc.names[v] = n
	fc.locals[v] = true
	return n
}

func (fc *fctx) flush() string {
	s := strings.Join(fc.pre, "\n  ")
	fc.pre = nil
	if s != "" {
		s += "\n  "
	}
	return s
}

// function emits the definition(s) of one function
func (fc *fctx) function(recv *ast.FieldList, ft *ast.FuncType, body *ast.BlockStmt) string {
	t := fc.t
	if fc.q == "unsafeString" {
		// func unsafeString(b []byte) string { return *(*string)(unsafe.Pointer(&b)) } : the same bytes
		if len(body.List) == 1 {
			if r, ok := body.List[0].(*ast.ReturnStmt); ok && len(r.Results) == 1 {
				if s, ok := r.Results[0].(*ast.StarExpr); ok && isUnsafeCast(s.X) {
					fc.resT = "bytes"
					return "Definition unsafeString (b : bytes) : res bytes := Val b.\n"
				}
			}
		}
		t.fail(body, "unsafeString has another body than the zero-copy conversion")
	}
	var params []string
	addParam := func(f *ast.Field) {
		for _, nm := range f.Names {
			v := t.info.ObjectOf(nm).(*types.Var)
			fc.params = append(fc.params, v)
			pt := t.coqType(f, v.Type())
			if fc.recvVals[v] {
				pt = t.coqType(f, derefT(v.Type()))
			}
			params = append(params, "("+fc.varName(v)+" : "+pt+")")
			if k := t.kindOf(v.Type()); k == kSuitePtr || k == kCtx {
				fc.inout = append(fc.inout, v)
				if k == kCtx {
					fc.ctxVar = fc.varName(v)
				}
			}
		}
		if len(f.Names) == 0 {
			t.fail(f, "unnamed parameter")
		}
	}
	if recv != nil {
		for _, f := range recv.List {
			if _, ptr := f.Type.(*ast.StarExpr); ptr {
				if !t.restMode || len(f.Names) != 1 || t.kindOf(t.info.TypeOf(f.Type)) != kLocalPtr || writesThrough(t, body, t.info.ObjectOf(f.Names[0])) {
					t.fail(f, "pointer receiver")
				}
				fc.recvVals[t.info.ObjectOf(f.Names[0]).(*types.Var)] = true // a read-only method: the receiver by value
			}
			addParam(f)
		}
	}
	for _, f := range ft.Params.List {
		addParam(f)
	}
	var results *types.Tuple
	if ft.Results != nil {
		var vars []*types.Var
		for _, f := range ft.Results.List {
			if len(f.Names) != 0 {
				t.fail(f, "named results")
			}
			vars = append(vars, types.NewVar(0, nil, "", t.info.TypeOf(f.Type)))
		}
		results = types.NewTuple(vars...)
	} else {
		results = types.NewTuple()
	}
	fc.resT = t.tupleType(ft, results)
	if len(fc.inout) > 0 {
		var parts []string
		for i := 0; i < results.Len(); i++ {
			parts = append(parts, t.coqType(ft, results.At(i).Type()))
		}
		for _, v := range fc.inout {
			parts = append(parts, t.coqType(ft, v.Type()))
		}
		fc.resT = "(" + strings.Join(parts, " * ") + ")"
		if len(parts) == 1 {
			fc.resT = parts[0]
		}
	}
	fc.sig = types.NewSignatureType(nil, nil, nil, nil, results, false)
	end := "Pnc (* missing return *)"
	if results.Len() == 0 {
		end = "Val " + fc.withInout(nil)
	}
	term := fc.block(body.List, konts{next: end})
	var b strings.Builder
	for _, l := range fc.loops {
		b.WriteString(l)
		b.WriteString("\n")
	}
	hdr := "Definition " + coqName(fc.q)
	if fc.needsFuel {
		hdr += " (fuel0 : nat)"
	}
	for _, p := range fc.poolList() {
		hdr += " (" + p + " : bytes)"
	}
	if len(params) > 0 {
		hdr += " " + strings.Join(params, " ")
	}
	b.WriteString(hdr + " : res " + fc.resT + " :=\n  " + term + ".\n")
	return b.String()
}

// withInout: the returned tuple, the current values of the in/out parameters last
func (fc *fctx) withInout(vals []string) string {
	for _, v := range fc.inout {
		vals = append(vals, fc.varName(v))
	}
	if len(vals) == 0 {
		return "tt"
	}
	if len(vals) == 1 {
		return vals[0]
	}
	return "(" + strings.Join(vals, ", ") + ")"
}

func terminates(list []ast.Stmt) bool {
	if len(list) == 0 {
		return false
	}
	switch s := list[len(list)-1].(type) {
	case *ast.ReturnStmt:
		return true
	case *ast.ExprStmt:
		if c, ok := s.X.(*ast.CallExpr); ok {
			if id, ok := c.Fun.(*ast.Ident); ok && id.Name == "panic" {
				return true
			}
		}
		return false
	case *ast.BranchStmt:
		return s.Tok == token.CONTINUE || s.Tok == token.BREAK
	case *ast.BlockStmt:
		return terminates(s.List)
	case *ast.IfStmt:
		if s.Else == nil {
			return false
		}
		var el []ast.Stmt
		switch e := s.Else.(type) {
		case *ast.BlockStmt:
			el = e.List
		case *ast.IfStmt:
			el = []ast.Stmt{e}
		}
		return terminates(s.Body.List) && terminates(el)
	case *ast.SwitchStmt:
		hasDefault := false
		for _, c := range s.Body.List {
			cc := c.(*ast.CaseClause)
			if cc.List == nil {
				hasDefault = true
			}
			if !terminatesNoBreak(cc.Body) {
				return false
			}
		}
		return hasDefault
	}
	return false
}

// inside a switch a `break` leaves the switch, so it does not terminate the enclosing list
func terminatesNoBreak(list []ast.Stmt) bool {
	if len(list) == 0 {
		return false
	}
	if b, ok := list[len(list)-1].(*ast.BranchStmt); ok && b.Tok == token.BREAK {
		return false
	}
	return terminates(list)
}

// variables declared outside `list` that are assigned inside it
func (fc *fctx) assigned(list []ast.Stmt) []*types.Var {
	t := fc.t
	declared := map[*types.Var]bool{}
	set := map[*types.Var]bool{}
	var order []*types.Var
	mark := func(e ast.Expr) {
		for {
			switch x := e.(type) {
			case *ast.ParenExpr:
				e = x.X
				continue
			case *ast.IndexExpr:
				e = x.X
				continue
			case *ast.SliceExpr:
				e = x.X
				continue
			case *ast.SelectorExpr:
				e = x.X
				continue
			case *ast.StarExpr:
				e = x.X
				continue
			}
			break
		}
		if id, ok := e.(*ast.Ident); ok {
			if v, ok := t.info.ObjectOf(id).(*types.Var); ok && !set[v] && v.Parent() != t.pkg.Types.Scope() {
				set[v] = true
				order = append(order, v)
			}
		}
	}
	for _, s := range list {
		ast.Inspect(s, func(n ast.Node) bool {
			switch x := n.(type) {
			case *ast.FuncLit:
				return false
			case *ast.AssignStmt:
				for _, l := range x.Lhs {
					if id, ok := l.(*ast.Ident); ok && x.Tok == token.DEFINE {
						if v, ok := t.info.Defs[id].(*types.Var); ok {
							declared[v] = true
							continue
						}
					}
					mark(l)
				}
			case *ast.IncDecStmt:
				mark(x.X)
			case *ast.CallExpr:
				if q, _ := fc.callee(x); q == "rand.Read" {
					mark(x.Args[0])
				}
			case *ast.UnaryExpr:
				if x.Op == token.AND {
					if id, ok := x.X.(*ast.Ident); ok && t.kindOf(t.info.TypeOf(id)) == kSuite {
						mark(id)
					}
				}
			case *ast.DeclStmt:
				if gd, ok := x.Decl.(*ast.GenDecl); ok {
					for _, sp := range gd.Specs {
						if vs, ok := sp.(*ast.ValueSpec); ok {
							for _, nm := range vs.Names {
								if v, ok := t.info.Defs[nm].(*types.Var); ok {
									declared[v] = true
								}
							}
						}
					}
				}
			case *ast.ExprStmt:
				if c, ok := x.X.(*ast.CallExpr); ok {
					q, _ := fc.callee(c)
					switch q {
					case "builtin.copy", "binary.PutUint64", "(binary.bigEndian).PutUint64":
						mark(c.Args[0])
					case "(hash.Hash).Write", "(url.Values).Set":
						mark(c.Fun.(*ast.SelectorExpr).X)
					}
				}
			}
			return true
		})
	}
	var out []*types.Var
	for _, v := range order {
		if !declared[v] {
			out = append(out, v)
		}
	}
	return out
}

func (fc *fctx) varList(vs []*types.Var) (names string, binders string) {
	var ns, bs []string
	for _, v := range vs {
		ns = append(ns, fc.varName(v))
		bs = append(bs, "("+fc.varName(v)+" : "+fc.vT(nil, v)+")")
	}
	if len(vs) == 0 {
		return "tt", "(_ : unit)"
	}
	return strings.Join(ns, " "), strings.Join(bs, " ")
}

// block translates a statement list followed by k
func (fc *fctx) block(list []ast.Stmt, k konts) string {
	if len(list) == 0 {
		return k.next
	}
	s, rest := list[0], list[1:]
	restK := func() string { return fc.block(rest, k) }
	t := fc.t
	fc.cur = s
	switch s := s.(type) {
	case *ast.EmptyStmt:
		return restK()
	case *ast.BlockStmt:
		if len(rest) == 0 {
			return fc.block(s.List, k)
		}
		return fc.join(s.List, nil, "true", rest, k, s)
	case *ast.ReturnStmt:
		return fc.ret(s)
	case *ast.BranchStmt:
		switch s.Tok {
		case token.CONTINUE:
			if k.cont == "" || s.Label != nil {
				t.fail(s, "continue outside a translated loop")
			}
			return k.cont
		case token.BREAK:
			if k.brk == "" || s.Label != nil {
				t.fail(s, "break outside a translated loop or switch")
			}
			return k.brk
		}
		t.fail(s, "branch statement %s", s.Tok)
	case *ast.DeclStmt:
		gd, ok := s.Decl.(*ast.GenDecl)
		if !ok || gd.Tok != token.VAR {
			t.fail(s, "declaration")
		}
		var out string
		for _, sp := range gd.Specs {
			vs := sp.(*ast.ValueSpec)
			for i, nm := range vs.Names {
				v := t.info.Defs[nm].(*types.Var)
				val := ""
				if len(vs.Values) > i {
					val = fc.expr(vs.Values[i])
				} else {
					val = t.zero(nm, v.Type())
					fc.zeroVars[v] = true
				}
				out += fc.flush() + "let " + fc.varName(v) + " : " + t.coqType(nm, v.Type()) + " := " + val + " in\n  "
			}
		}
		return out + restK()
	case *ast.AssignStmt:
		return fc.assign(s) + restK()
	case *ast.IncDecStmt:
		op := token.ADD
		if s.Tok == token.DEC {
			op = token.SUB
		}
		one := &ast.BasicLit{Kind: token.INT, Value: "1"}
		fake := &ast.BinaryExpr{X: s.X, Op: op, Y: one}
		t.info.Types[one] = types.TypeAndValue{Type: fc.typeOf(s.X), Value: constantOne}
		t.info.Types[fake] = types.TypeAndValue{Type: fc.typeOf(s.X)}
		return fc.store(s.X, fc.expr(fake)) + restK()
	case *ast.ExprStmt:
		es := fc.exprStmt(s)
		if strings.HasSuffix(es, "\x02") {
			return strings.TrimSuffix(es, "\x02") // panic(...): nothing after it runs
		}
		return es + restK()
	case *ast.DeferStmt:
		q, _ := fc.callee(s.Call)
		if q == "(sync.Pool).Put" {
			return restK() // returning the scratch buffer to its pool: no value effect (Mem.v, alias analysis)
		}
		t.fail(s, "defer of %s", exprText(s.Call.Fun))
	case *ast.IfStmt:
		var pre string
		if s.Init != nil {
			pre = fc.block([]ast.Stmt{s.Init}, konts{next: "\x00"})
			if !strings.HasSuffix(pre, "\x00") {
				t.fail(s.Init, "if-initialiser form")
			}
			pre = strings.TrimSuffix(pre, "\x00")
		}
		cond := fc.expr(s.Cond)
		pre += fc.flush()
		var el []ast.Stmt
		switch e := s.Else.(type) {
		case *ast.BlockStmt:
			el = e.List
		case *ast.IfStmt:
			el = []ast.Stmt{e}
		}
		return pre + fc.join(s.Body.List, el, cond, rest, k, s)
	case *ast.SwitchStmt:
		return fc.switchStmt(s, rest, k)
	case *ast.ForStmt:
		return fc.forStmt(s, rest, k)
	case *ast.RangeStmt:
		return fc.rangeStmt(s, rest, k)
	}
	t.fail(s, "statement form %T", s)
	return ""
}

// join: `if cond {a} else {b}; rest`
func (fc *fctx) join(a, b []ast.Stmt, cond string, rest []ast.Stmt, k konts, at ast.Node) string {
	ta, tb := terminates(a), terminates(b)
	switch {
	case ta && tb:
		return "if " + cond + " then (" + fc.block(a, k) + ")\n  else (" + fc.block(b, k) + ")"
	case ta && len(b) == 0:
		return "if " + cond + " then (" + fc.block(a, k) + ")\n  else\n  " + fc.block(rest, k)
	case ta:
		return "if " + cond + " then (" + fc.block(a, k) + ")\n  else (" + fc.block(append(append([]ast.Stmt{}, b...), rest...), k) + ")"
	case tb:
		return "if " + cond + " then (" + fc.block(append(append([]ast.Stmt{}, a...), rest...), k) + ")\n  else (" + fc.block(b, k) + ")"
	}
	if len(rest) == 0 {
		return "if " + cond + " then (" + fc.block(a, k) + ")\n  else (" + fc.block(b, k) + ")"
	}
	// a join point over the variables either branch assigns
	vs := fc.assigned(append(append([]ast.Stmt{}, a...), b...))
	names, binders := fc.varList(vs)
	*fc.nloop++
	kj := fmt.Sprintf("kj%d", *fc.nloop)
	restT := fc.block(rest, k)
	kk := k
	kk.next = kj + " " + names
	return "let " + kj + " := fun " + binders + " =>\n  " + restT + " in\n  if " + cond + " then (" + fc.block(a, kk) + ")\n  else (" + fc.block(b, kk) + ")"
}

func (fc *fctx) ret(s *ast.ReturnStmt) string {
	t := fc.t
	n := fc.sig.Results().Len()
	if len(s.Results) == 1 && n > 1 && len(fc.inout) == 0 {
		// return f(...) with a tuple result
		c, ok := s.Results[0].(*ast.CallExpr)
		if !ok {
			t.fail(s, "return of a tuple that is not a call")
		}
		v := fc.call(c, n)
		// the last bind is the call itself: return it directly
		if len(fc.pre) > 0 && strings.HasPrefix(fc.pre[len(fc.pre)-1], "do "+v+" <- ") {
			callText := strings.TrimSuffix(strings.TrimPrefix(fc.pre[len(fc.pre)-1], "do "+v+" <- "), ";")
			fc.pre = fc.pre[:len(fc.pre)-1]
			return fc.flush() + callText
		}
		return fc.flush() + "Val " + v
	}
	if len(s.Results) != n {
		t.fail(s, "return arity")
	}
	var vals []string
	for i, r := range s.Results {
		want := fc.sig.Results().At(i).Type()
		v := fc.expr(r)
		// nil / zero conversions by result type
		if isNilIdent(t, r) {
			switch t.kindOf(want) {
			case kBytes:
				v = "[]"
			case kSuite:
				v = t.zero(r, want)
			default:
				v = "None"
			}
		} else if t.kindOf(want) == kSuiteI && fc.kind(r) == kSuite {
			v = "(Some " + v + ")" // a value stored in the interface
		}
		vals = append(vals, v)
	}
	if len(fc.inout) > 0 {
		return fc.flush() + "Val " + fc.withInout(vals)
	}
	if n == 0 {
		return fc.flush() + "Val tt"
	}
	if n == 1 {
		// tail call of a function with the same result type
		if c, ok := s.Results[0].(*ast.CallExpr); ok && len(fc.pre) > 0 && strings.HasPrefix(fc.pre[len(fc.pre)-1], "do "+vals[0]+" <- ") {
			_ = c
			callText := strings.TrimSuffix(strings.TrimPrefix(fc.pre[len(fc.pre)-1], "do "+vals[0]+" <- "), ";")
			fc.pre = fc.pre[:len(fc.pre)-1]
			return fc.flush() + callText
		}
		return fc.flush() + "Val " + vals[0]
	}
	return fc.flush() + "Val (" + strings.Join(vals, ", ") + ")"
}

// store: the statement text for `lhs = value`
func (fc *fctx) store(lhs ast.Expr, val string) string {
	t := fc.t
	switch l := lhs.(type) {
	case *ast.Ident:
		if l.Name == "_" {
			return fc.flush()
		}
		v, ok := t.info.ObjectOf(l).(*types.Var)
		if !ok || v.Parent() == t.pkg.Types.Scope() {
			t.fail(lhs, "assignment to %s", l.Name)
		}
		delete(fc.zeroVars, v)
		return fc.flush() + "let " + fc.varName(v) + " := " + val + " in\n  "
	case *ast.IndexExpr:
		id, ok := l.X.(*ast.Ident)
		if !ok || fc.kind(l.X) != kBytes {
			t.fail(lhs, "indexed assignment")
		}
		v := t.info.ObjectOf(id).(*types.Var)
		if _, isStr := v.Type().Underlying().(*types.Basic); isStr || v.Parent() == t.pkg.Types.Scope() {
			t.fail(lhs, "indexed assignment into %s", id.Name)
		}
		ix := fc.toZ(l.Index)
		return fc.flush() + "do " + fc.varName(v) + " <- set_idx " + fc.varName(v) + " " + ix + " " + val + ";\n  "
	case *ast.SelectorExpr:
		id, ok := l.X.(*ast.Ident)
		k := fc.kind(l.X)
		if ok && (k == kUParam || k == kUParamPtr) {
			v := t.info.ObjectOf(id).(*types.Var)
			name := fc.varName(v)
			base := name
			pre := ""
			if k == kUParamPtr {
				base = fc.bind("deref " + name)
			}
			var parts []string
			for _, f := range fieldProj["URLParam"] {
				pf := strings.Split(f, ":")
				if pf[0] == l.Sel.Name {
					parts = append(parts, val)
				} else {
					parts = append(parts, "("+pf[1]+" "+base+")")
				}
			}
			rec := "mkUrlParam " + strings.Join(parts, " ")
			if k == kUParamPtr {
				rec = "Some (" + rec + ")"
			}
			return pre + fc.flush() + "let " + name + " := " + rec + " in\n  "
		}
		if ok && k == kLocal {
			v := t.info.ObjectOf(id).(*types.Var)
			if v.Parent() == t.pkg.Types.Scope() {
				t.fail(lhs, "assignment to a field of package variable %s", id.Name)
			}
			name := fc.varName(v)
			delete(fc.zeroVars, v)
			return fc.flush() + "let " + name + " := set_" + v.Type().(*types.Named).Obj().Name() + "_" + l.Sel.Name + " " + name + " " + val + " in\n  "
		}
		if ok && k == kInput {
			v := t.info.ObjectOf(id).(*types.Var)
			name := fc.varName(v)
			var parts []string
			for _, f := range fieldProj["OCRAInput"] {
				pf := strings.Split(f, ":")
				if pf[0] == l.Sel.Name {
					parts = append(parts, val)
				} else {
					parts = append(parts, "("+pf[1]+" "+name+")")
				}
			}
			return fc.flush() + "let " + name + " := mkInput " + strings.Join(parts, " ") + " in\n  "
		}
		if ok && (k == kSuite || k == kSuitePtr) {
			v := t.info.ObjectOf(id).(*types.Var)
			if v.Parent() == t.pkg.Types.Scope() {
				t.fail(lhs, "assignment to a field of package variable %s", id.Name)
			}
			name := fc.varName(v)
			var parts []string
			found := false
			for _, f := range fieldProj["SuiteConfig"] {
				pf := strings.Split(f, ":")
				if pf[0] == l.Sel.Name {
					parts = append(parts, val)
					found = true
				} else {
					parts = append(parts, "("+pf[1]+" "+name+")")
				}
			}
			if !found {
				t.fail(lhs, "field %s", l.Sel.Name)
			}
			return fc.flush() + "let " + name + " := mkSuite " + strings.Join(parts, " ") + " in\n  "
		}
	}
	t.fail(lhs, "assignment target %T", lhs)
	return ""
}

func (fc *fctx) assign(s *ast.AssignStmt) string {
	t := fc.t
	if len(s.Lhs) == 1 && len(s.Rhs) == 1 {
		if s.Tok != token.ASSIGN && s.Tok != token.DEFINE {
			// op=
			ops := map[token.Token]token.Token{token.ADD_ASSIGN: token.ADD, token.SUB_ASSIGN: token.SUB, token.MUL_ASSIGN: token.MUL, token.QUO_ASSIGN: token.QUO, token.REM_ASSIGN: token.REM, token.AND_ASSIGN: token.AND, token.OR_ASSIGN: token.OR, token.XOR_ASSIGN: token.XOR, token.SHL_ASSIGN: token.SHL, token.SHR_ASSIGN: token.SHR}
			op, ok := ops[s.Tok]
			if !ok {
				t.fail(s, "assignment operator %s", s.Tok)
			}
			fake := &ast.BinaryExpr{X: s.Lhs[0], Op: op, Y: s.Rhs[0]}
			t.info.Types[fake] = types.TypeAndValue{Type: fc.typeOf(s.Lhs[0])}
			return fc.store(s.Lhs[0], fc.expr(fake))
		}
		// the pool idiom: x := pool.Get().(*T)
		if ta, ok := s.Rhs[0].(*ast.TypeAssertExpr); ok {
			if c, ok := ta.X.(*ast.CallExpr); ok {
				if q, _ := fc.callee(c); q == "(sync.Pool).Get" {
					pool := exprText(c.Fun.(*ast.SelectorExpr).X)
					p := "junk_" + pool
					fc.pools[p] = true
					pre := ""
					if a, ok := fc.typeOf(s.Rhs[0]).(*types.Pointer); ok {
						if arr, ok := a.Elem().Underlying().(*types.Array); ok {
							// the pooled array has its length whatever it contains
							pre = fmt.Sprintf("if negb (Nat.eqb (length %s) %d) then Pnc else\n  ", p, arr.Len())
						}
					}
					return pre + fc.store(s.Lhs[0], p)
				}
			}
		}
		val := fc.expr(s.Rhs[0])
		if isNilIdent(t, s.Rhs[0]) && fc.kind(s.Lhs[0]) == kBytes {
			val = "[]"
		}
		if id, blank := s.Lhs[0].(*ast.Ident); s.Tok == token.ASSIGN && !(blank && id.Name == "_") && fc.kind(s.Lhs[0]) == kSuiteI && fc.kind(s.Rhs[0]) == kSuite {
			val = "(Some " + val + ")" // a value stored in the interface
		}
		return fc.store(s.Lhs[0], val)
	}
	if len(s.Rhs) == 1 {
		// a, b := f(...)   or   v, ok := knownSuites[key]
		var v string
		if ix, isIx := s.Rhs[0].(*ast.IndexExpr); isIx {
			if id, ok := ix.X.(*ast.Ident); !ok || id.Name != "knownSuites" || len(s.Lhs) != 2 {
				t.fail(s, "comma-ok form on something else than the suite registry")
			}
			v = "(lookup_go " + fc.expr(ix.Index) + ")"
		} else {
			c, ok := s.Rhs[0].(*ast.CallExpr)
			if !ok {
				t.fail(s, "tuple assignment from %T", s.Rhs[0])
			}
			if q, _ := fc.callee(c); q == "rand.Read" {
				// fills its argument from the random source (an oracle parameter)
				fc.pools["junk_rand"] = true
				pre := fc.store(c.Args[0], "(rand_fill "+fc.expr(c.Args[0])+" junk_rand)")
				v = "(zlen " + fc.expr(c.Args[0]) + ", @None err)"
				var pats []string
				for _, l := range s.Lhs {
					id := l.(*ast.Ident)
					if id.Name == "_" {
						pats = append(pats, "_")
					} else {
						pats = append(pats, fc.varName(t.info.ObjectOf(id).(*types.Var)))
					}
				}
				return pre + "let '(" + strings.Join(pats, ", ") + ") := " + v + " in\n  "
			}
			v = fc.call(c, len(s.Lhs))
			if q, _ := fc.callee(c); q == "json.Marshal" && t.restMode {
				if id, ok := s.Lhs[0].(*ast.Ident); ok && id.Name != "_" {
					fc.vtype[t.info.ObjectOf(id).(*types.Var)] = "jout"
				}
			}
		}
		var pats []string
		var after string
		for _, l := range s.Lhs {
			id, ok := l.(*ast.Ident)
			if !ok {
				t.fail(l, "tuple assignment target")
			}
			if id.Name == "_" {
				pats = append(pats, "_")
				continue
			}
			vv := t.info.ObjectOf(id).(*types.Var)
			pats = append(pats, fc.varName(vv))
		}
		return fc.flush() + "let '(" + strings.Join(pats, ", ") + ") := " + v + " in\n  " + after
	}
	if len(s.Lhs) == len(s.Rhs) {
		var out string
		var vals []string
		for _, r := range s.Rhs {
			vals = append(vals, fc.expr(r))
		}
		// parallel assignment: evaluate all, then store (temporaries keep the old values)
		var tmps []string
		for _, v := range vals {
			tn := fc.tmp()
			out += "let " + tn + " := " + v + " in\n  "
			tmps = append(tmps, tn)
		}
		out = fc.flush() + out
		for i, l := range s.Lhs {
			out += fc.store(l, tmps[i])
		}
		return out
	}
	t.fail(s, "assignment form")
	return ""
}

func (fc *fctx) exprStmt(s *ast.ExprStmt) string {
	t := fc.t
	c, ok := s.X.(*ast.CallExpr)
	if !ok {
		t.fail(s, "expression statement")
	}
	q, _ := fc.callee(c)
	switch q {
	case "self.log":
		if t.mainMode {
			return "" // console output: no value effect (its argument is not evaluated in the translation)
		}
	case "builtin.panic":
		return fc.flush() + "Pnc (* panic(...) *) \x02"
	case "builtin.copy":
		return fc.store(c.Args[0], "(copy_into "+fc.expr(c.Args[0])+" "+fc.expr(c.Args[1])+")")
	case "(binary.bigEndian).PutUint64":
		dst := c.Args[0]
		if sl, ok := dst.(*ast.SliceExpr); ok && sl.Low == nil && sl.High == nil {
			dst = sl.X
		}
		v := fc.bind("put_uint64 " + fc.expr(dst) + " " + fc.expr(c.Args[1]))
		return fc.store(dst, v)
	case "(hash.Hash).Write":
		recv := c.Fun.(*ast.SelectorExpr).X
		return fc.store(recv, "(hash_write "+fc.expr(recv)+" "+fc.expr(c.Args[0])+")")
	case "(url.Values).Set":
		recv := c.Fun.(*ast.SelectorExpr).X
		return fc.store(recv, "(values_set "+fc.expr(c.Args[0])+" "+fc.expr(c.Args[1])+" "+fc.expr(recv)+")")
	case "(fasthttp.RequestCtx).SetStatusCode":
		recv := c.Fun.(*ast.SelectorExpr).X
		return fc.store(recv, "(ctx_set_status "+fc.expr(recv)+" "+fc.toZ(c.Args[0])+")")
	case "(fasthttp.RequestCtx).SetContentType":
		recv := c.Fun.(*ast.SelectorExpr).X
		return fc.store(recv, "(ctx_set_ctype "+fc.expr(recv)+" "+fc.expr(c.Args[0])+")")
	case "(fasthttp.RequestCtx).SetBody":
		recv := c.Fun.(*ast.SelectorExpr).X
		id, ok := c.Args[0].(*ast.Ident)
		if !ok || fc.vtype[t.info.ObjectOf(id).(*types.Var)] != "jout" {
			t.fail(s, "SetBody of something else than the result of json.Marshal")
		}
		return fc.store(recv, "(ctx_set_body "+fc.expr(recv)+" "+fc.expr(id)+")")
	case "(fasthttp.RequestCtx).SetBodyString":
		recv := c.Fun.(*ast.SelectorExpr).X
		return fc.store(recv, "(ctx_set_body_string "+fc.expr(recv)+" "+fc.expr(c.Args[0])+")")
	case "(fasthttp.RequestCtx).Redirect":
		recv := c.Fun.(*ast.SelectorExpr).X
		return fc.store(recv, "(ctx_redirect "+fc.expr(recv)+" "+fc.expr(c.Args[0])+" "+fc.toZ(c.Args[1])+")")
	case "(fasthttp.RequestCtx).SetUserValue":
		return "" // read by the swagger handler only
	}
	if t.restMode {
		if _, isCall := c.Fun.(*ast.CallExpr); isCall || strings.HasPrefix(q, "self.") {
			fc.call(c, 0) // for its effect on the context (an in/out parameter)
			return fc.flush()
		}
	}
	t.fail(s, "call statement %s", exprText(c.Fun))
	return ""
}

// switch: an if-chain; `break` leaves the switch
func (fc *fctx) switchStmt(s *ast.SwitchStmt, rest []ast.Stmt, k konts) string {
	t := fc.t
	var pre string
	if s.Init != nil {
		pre = fc.block([]ast.Stmt{s.Init}, konts{next: "\x00"})
		pre = strings.TrimSuffix(pre, "\x00")
	}
	tag := ""
	var tagK kind
	if s.Tag != nil {
		tagK = fc.kind(s.Tag)
		tv := fc.expr(s.Tag)
		pre += fc.flush()
		tag = fc.tmp()
		pre += "let " + tag + " := " + tv + " in\n  "
	}
	type clause struct {
		cond string
		body []ast.Stmt
	}
	var cls []clause
	var dflt []ast.Stmt
	for _, c := range s.Body.List {
		cc := c.(*ast.CaseClause)
		for _, st := range cc.Body {
			if b, ok := st.(*ast.BranchStmt); ok && b.Tok == token.FALLTHROUGH {
				t.fail(b, "fallthrough")
			}
		}
		if cc.List == nil {
			dflt = cc.Body
			continue
		}
		var alts []string
		for _, e := range cc.List {
			if s.Tag == nil {
				fc.noBind++
				alts = append(alts, fc.expr(e))
				fc.noBind--
			} else {
				v := fc.expr(e)
				switch {
				case isUnsigned(tagK):
					alts = append(alts, "(N.eqb "+tag+" "+v+")")
				case tagK == kI64 || tagK == kI32:
					alts = append(alts, "(Z.eqb "+tag+" "+v+")")
				case tagK == kBytes:
					alts = append(alts, "(beqb "+tag+" "+v+")")
				default:
					t.fail(e, "switch on %s", fc.typeOf(s.Tag))
				}
			}
		}
		cls = append(cls, clause{"(" + strings.Join(alts, " || ") + ")", cc.Body})
	}
	if len(fc.pre) > 0 {
		t.fail(s, "case expression that can panic")
	}
	// all clauses continue with the same continuation: a join point when something follows
	allTerm := len(dflt) > 0 && terminatesNoBreak(dflt)
	for _, c := range cls {
		if !terminatesNoBreak(c.body) {
			allTerm = false
		}
	}
	kk := k
	head := ""
	if !allTerm && len(rest) > 0 {
		var all []ast.Stmt
		for _, c := range cls {
			all = append(all, c.body...)
		}
		all = append(all, dflt...)
		vs := fc.assigned(all)
		names, binders := fc.varList(vs)
		*fc.nloop++
		kj := fmt.Sprintf("kj%d", *fc.nloop)
		head = "let " + kj + " := fun " + binders + " =>\n  " + fc.block(rest, k) + " in\n  "
		kk.next = kj + " " + names
	} else if len(rest) > 0 {
		// every clause returns; nothing reaches rest
		kk.next = "Pnc"
	}
	kk.brk = kk.next
	out := ""
	for _, c := range cls {
		out += "if " + c.cond + " then (" + fc.block(c.body, kk) + ")\n  else "
	}
	out += "(" + fc.block(dflt, kk) + ")"
	return pre + head + out
}

// free local variables used in a loop (parameters of its fixpoint)
func (fc *fctx) freeVars(nodes []ast.Node, exclude map[*types.Var]bool) []*types.Var {
	t := fc.t
	seen := map[*types.Var]bool{}
	var out []*types.Var
	declared := map[*types.Var]bool{}
	for _, n := range nodes {
		if n == nil {
			continue
		}
		ast.Inspect(n, func(x ast.Node) bool {
			if id, ok := x.(*ast.Ident); ok {
				if v, ok := t.info.Defs[id].(*types.Var); ok {
					declared[v] = true
				}
				if v, ok := t.info.Uses[id].(*types.Var); ok && !v.IsField() && v.Parent() != t.pkg.Types.Scope() && v.Pkg() == t.pkg.Types && !seen[v] && !exclude[v] && !declared[v] {
					seen[v] = true
					out = append(out, v)
				}
			}
			return true
		})
	}
	return out
}

func (fc *fctx) forStmt(s *ast.ForStmt, rest []ast.Stmt, k konts) string {
	t := fc.t
	var pre string
	if s.Init != nil {
		pre = fc.block([]ast.Stmt{s.Init}, konts{next: "\x00"})
		pre = strings.TrimSuffix(pre, "\x00")
	}
	fc.needsFuel = true
	*fc.nfor++
	name := fmt.Sprintf("%s_loop%d", coqName(fc.q), *fc.nfor)
	var post []ast.Stmt
	if s.Post != nil {
		post = []ast.Stmt{s.Post}
	}
	lv := fc.assigned(append(append([]ast.Stmt{}, s.Body.List...), post...))
	// variables declared by the init statement and assigned in the loop are loop variables; so are outer ones
	lvSet := map[*types.Var]bool{}
	for _, v := range lv {
		lvSet[v] = true
	}
	var nodes []ast.Node
	if s.Cond != nil {
		nodes = append(nodes, s.Cond)
	}
	nodes = append(nodes, s.Body)
	if s.Post != nil {
		nodes = append(nodes, s.Post)
	}
	iv := fc.freeVars(nodes, lvSet)
	lvNames, lvBinders := fc.varList(lv)
	var ivNames, ivBinders []string
	for _, v := range iv {
		ivNames = append(ivNames, fc.varName(v))
		ivBinders = append(ivBinders, "("+fc.varName(v)+" : "+t.coqType(s, v.Type())+")")
	}
	// the body, with the recursive call as continuation
	sub := *fc
	sub.pre = nil
	sub.loops = nil
	poolsBefore := len(fc.pools)
	_ = poolsBefore
	recCall := func(pools []string) string {
		a := []string{name, "fuel", "fuel0"}
		a = append(a, pools...)
		a = append(a, ivNames...)
		if len(lv) > 0 {
			a = append(a, lvNames)
		}
		a = append(a, "kx")
		return strings.Join(a, " ")
	}
	const poolMark = "\x01POOLS\x01"
	rec := recCall([]string{poolMark})
	exit := "kx " + lvNames
	postT := sub.block(post, konts{next: rec})
	cond := "true"
	condPre := ""
	if s.Cond != nil {
		cond = sub.expr(s.Cond)
		condPre = sub.flush()
	}
	body := sub.block(s.Body.List, konts{next: postT, cont: postT, brk: exit})
	fc.ntmp = sub.ntmp
	fc.loops = append(fc.loops, sub.loops...)
	pools := fc.poolList()
	poolArgs := strings.Join(pools, " ")
	var poolBinders []string
	for _, p := range pools {
		poolBinders = append(poolBinders, "("+p+" : bytes)")
	}
	kxT := "(kx : "
	if len(lv) == 0 {
		kxT += "unit -> "
	}
	for _, v := range lv {
		kxT += t.coqType(s, v.Type()) + " -> "
	}
	kxT += "res " + fc.resT + ")"
	def := "Fixpoint " + name + " (fuel : nat) (fuel0 : nat) " + strings.Join(poolBinders, " ") + " " + strings.Join(ivBinders, " ") + " "
	if len(lv) > 0 {
		def += lvBinders + " "
	}
	def += kxT + " {struct fuel} : res " + fc.resT + " :=\n  match fuel with O => OutOfFuel | S fuel =>\n  " + condPre + "if " + cond + " then (" + body + ")\n  else " + exit + "\n  end.\n"
	def = strings.ReplaceAll(def, poolMark, poolArgs)
	fc.loops = append(fc.loops, def)
	// the call site
	restT := fc.block(rest, k)
	a := []string{name, "fuel0", "fuel0"}
	a = append(a, pools...)
	a = append(a, ivNames...)
	if len(lv) > 0 {
		a = append(a, lvNames)
	}
	fun := "(fun " + lvBinders + " =>\n  " + restT + ")"
	return pre + strings.Join(a, " ") + " " + fun
}

// (*string)(unsafe.Pointer(&b))
func isUnsafeCast(e ast.Expr) bool {
	c, ok := e.(*ast.CallExpr)
	if !ok || len(c.Args) != 1 || exprText(c.Fun) != "(*string)" {
		return false
	}
	in, ok := c.Args[0].(*ast.CallExpr)
	if !ok || exprText(in.Fun) != "unsafe.Pointer" || len(in.Args) != 1 {
		return false
	}
	u, ok := in.Args[0].(*ast.UnaryExpr)
	return ok && u.Op == token.AND && exprText(u.X) == "b"
}

// for _, x := range <[]string> { body }: structural recursion on the list
func (fc *fctx) rangeStmt(s *ast.RangeStmt, rest []ast.Stmt, k konts) string {
	t := fc.t
	if fc.kind(s.X) == kBytes && s.Value == nil && s.Key != nil && s.Tok == token.DEFINE {
		// for i := range b  ==  for i := 0; i < len(b); i++
		key := s.Key.(*ast.Ident)
		intT := types.Typ[types.Int]
		zero := &ast.BasicLit{Kind: token.INT, Value: "0"}
		t.info.Types[zero] = types.TypeAndValue{Type: intT, Value: constantZero}
		lenId := &ast.Ident{Name: "len"}
		t.info.Uses[lenId] = types.Universe.Lookup("len")
		lenCall := &ast.CallExpr{Fun: lenId, Args: []ast.Expr{s.X}}
		t.info.Types[lenCall] = types.TypeAndValue{Type: intT}
		cond := &ast.BinaryExpr{X: key, Op: token.LSS, Y: lenCall}
		t.info.Types[cond] = types.TypeAndValue{Type: types.Typ[types.Bool]}
		f := &ast.ForStmt{Init: &ast.AssignStmt{Lhs: []ast.Expr{key}, Tok: token.DEFINE, Rhs: []ast.Expr{zero}}, Cond: cond,
			Post: &ast.IncDecStmt{X: key, Tok: token.INC}, Body: s.Body}
		return fc.forStmt(f, rest, k)
	}
	pairs := fc.kind(s.X) == kPairs
	registry := false
	if id, ok := s.X.(*ast.Ident); ok && id.Name == "knownSuites" && s.Value == nil && s.Key != nil {
		// for name := range knownSuites: the names of the registry (Go's order is unspecified; the table's order here)
		registry = true
	}
	if fc.kind(s.X) != kStrList && !pairs && !registry {
		t.fail(s, "range over %s", fc.typeOf(s.X))
	}
	if s.Key != nil && !pairs && !registry {
		if id, ok := s.Key.(*ast.Ident); !ok || id.Name != "_" {
			t.fail(s, "range with an index variable")
		}
	}
	if s.Tok != token.DEFINE && s.Value != nil {
		t.fail(s, "range assigning to existing variables")
	}
	fc.needsFuel = true
	*fc.nfor++
	name := fmt.Sprintf("%s_loop%d", coqName(fc.q), *fc.nfor)
	listExpr := ""
	if registry {
		listExpr = "(map fst known_suites)"
	} else {
		listExpr = fc.expr(s.X)
	}
	pre := fc.flush()
	elem := "_"
	if id, ok := s.Value.(*ast.Ident); ok && id.Name != "_" {
		elem = fc.varName(t.info.Defs[id].(*types.Var))
	}
	if registry {
		if id, ok := s.Key.(*ast.Ident); ok && id.Name != "_" {
			elem = fc.varName(t.info.Defs[id].(*types.Var))
		}
	}
	listT := "list bytes"
	if pairs {
		// the iteration order of a Go map is unspecified; the association list is walked in its own order
		kn := "_"
		if id, ok := s.Key.(*ast.Ident); ok && id.Name != "_" {
			kn = fc.varName(t.info.Defs[id].(*types.Var))
		}
		elem = "(" + kn + ", " + elem + ")"
		listT = "list (bytes * bytes)"
	}
	lv := fc.assigned(s.Body.List)
	lvSet := map[*types.Var]bool{}
	for _, v := range lv {
		lvSet[v] = true
	}
	var nodes []ast.Node
	if s.Key != nil {
		nodes = append(nodes, s.Key)
	}
	if s.Value != nil {
		nodes = append(nodes, s.Value)
	}
	nodes = append(nodes, s.Body)
	iv := fc.freeVars(nodes, lvSet)
	lvNames, lvBinders := fc.varList(lv)
	var ivNames, ivBinders []string
	for _, v := range iv {
		ivNames = append(ivNames, fc.varName(v))
		ivBinders = append(ivBinders, "("+fc.varName(v)+" : "+t.coqType(s, v.Type())+")")
	}
	sub := *fc
	sub.pre = nil
	sub.loops = nil
	const poolMark = "\x01POOLS\x01"
	a := []string{name, "range_rest", "fuel0", poolMark}
	a = append(a, ivNames...)
	if len(lv) > 0 {
		a = append(a, lvNames)
	}
	a = append(a, "kx")
	rec := strings.Join(a, " ")
	exit := "kx " + lvNames
	body := sub.block(s.Body.List, konts{next: rec, cont: rec, brk: exit})
	fc.ntmp = sub.ntmp
	fc.loops = append(fc.loops, sub.loops...)
	pools := fc.poolList()
	var poolBinders []string
	for _, p := range pools {
		poolBinders = append(poolBinders, "("+p+" : bytes)")
	}
	kxT := "(kx : "
	if len(lv) == 0 {
		kxT += "unit -> "
	}
	for _, v := range lv {
		kxT += t.coqType(s, v.Type()) + " -> "
	}
	kxT += "res " + fc.resT + ")"
	def := "Fixpoint " + name + " (range_list : " + listT + ") (fuel0 : nat) " + strings.Join(poolBinders, " ") + " " + strings.Join(ivBinders, " ") + " "
	if len(lv) > 0 {
		def += lvBinders + " "
	}
	def += kxT + " {struct range_list} : res " + fc.resT + " :=\n  match range_list with\n  | [] => " + exit + "\n  | " + elem + " :: range_rest =>\n  " + body + "\n  end.\n"
	def = strings.ReplaceAll(def, poolMark, strings.Join(pools, " "))
	fc.loops = append(fc.loops, def)
	restT := fc.block(rest, k)
	c := []string{name, listExpr, "fuel0"}
	c = append(c, pools...)
	c = append(c, ivNames...)
	if len(lv) > 0 {
		c = append(c, lvNames)
	}
	return pre + strings.Join(c, " ") + " (fun " + lvBinders + " =>\n  " + restT + ")"
}

// writesThrough: does the body assign to a field of (or through) the receiver?
func writesThrough(t *tr, body *ast.BlockStmt, recv types.Object) bool {
	found := false
	ast.Inspect(body, func(n ast.Node) bool {
		check := func(x ast.Expr) {
			for {
				switch y := x.(type) {
				case *ast.SelectorExpr:
					x = y.X
					continue
				case *ast.StarExpr:
					x = y.X
					continue
				case *ast.IndexExpr:
					x = y.X
					continue
				case *ast.ParenExpr:
					x = y.X
					continue
				case *ast.Ident:
					if t.info.ObjectOf(y) == recv {
						found = true
					}
				}
				return
			}
		}
		switch s := n.(type) {
		case *ast.AssignStmt:
			for _, l := range s.Lhs {
				if _, plain := l.(*ast.Ident); !plain {
					check(l)
				}
			}
		case *ast.IncDecStmt:
			check(s.X)
		case *ast.UnaryExpr:
			if s.Op == token.AND {
				check(s.X)
			}
		}
		return true
	})
	return found
}
