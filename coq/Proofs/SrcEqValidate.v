(** validate.go (and what hotp.go and totp.go share) as translated from the Go source
    (Generated/Src.v) compute what the hand-written model computes. *)
From Coq Require Import ZifyN ZifyNat ZifyBool String.
From OtpV Require Import Prelude Sha Tables GoSem Errors Decoder Derive Otp Suite Src SrcLift SrcEqDecode SrcEqDerive.
Open Scope N_scope.
Ltac Zify.zify_post_hook ::= Z.div_mod_to_equations.

(** ---------- validate, validateRFC4226 ---------- *)
Lemma beqb_bytes_eqb a b : beqb a b = bytes_eqb a b.
Proof. revert b; induction a as [|x a IH]; intros [|y b]; cbn [beqb bytes_eqb]; try reflexivity; rewrite IH; reflexivity. Qed.

Lemma validate_no_err code n d e : fst (Otp.validate code n d) <> Err e.
Proof.
  unfold Otp.validate. destruct (negb (zlen code =? n)%Z); [discriminate|].
  destruct (d tt); [|discriminate|discriminate]. destruct (bytes_eqb code a); discriminate.
Qed.

Lemma src_validate_eq code n dF d : dF tt = lift_oc (d tt) ->
  Src.validate code n dF = lift_v (Otp.validate code n d).
Proof.
  intros H. unfold Src.validate, Otp.validate, lift_v.
  destruct (negb (Z.eqb (zlen code) n)); [reflexivity|].
  rewrite H. destruct (d tt) as [expected|e|]; cbn [lift_oc rbind is_some fst]; [|reflexivity|reflexivity].
  unfold ct_compare. rewrite beqb_bytes_eqb. destruct (bytes_eqb code expected); reflexivity.
Qed.

Lemma src_validateRFC4226_eq fuel junk code secret counter digits algo :
  (11 <= fuel)%nat -> length junk = 8%nat ->
  Src.validateRFC4226 fuel junk code secret counter digits algo
  = lift_v (Otp.validate_rfc4226 hmac code secret counter digits algo).
Proof.
  intros Hf Hj. unfold Src.validateRFC4226, Otp.validate_rfc4226, Src.Digits_Int. cbn [rbind].
  apply src_validate_eq. cbn [rbind]. apply src_deriveRFC4226_eq; assumption.
Qed.

(** ---------- GenerateHOTP ---------- *)
Lemma default_hotp_eq : Src.g_DefaultHOTPParam = Some default_hotp_param.
Proof. reflexivity. Qed.
Lemma default_totp_eq : Src.g_DefaultTOTPParam = Some default_totp_param.
Proof. reflexivity. Qed.

(** ---------- ValidateHOTP ---------- *)
Definition zseq (i : Z) (n : nat) : list Z := map (fun k => (i + Z.of_nat k)%Z) (seq 0 n).
Lemma zseq_S i n : zseq i (S n) = i :: zseq (i + 1) n.
Proof.
  unfold zseq. cbn [seq map]. f_equal; [lia|]. rewrite <- seq_shift, map_map. apply map_ext. intros k. lia.
Qed.
Lemma offsets_zseq sk : offsets sk = zseq (- Z.of_N sk) (2 * N.to_nat sk + 1).
Proof. unfold offsets, zseq. apply map_ext. intros k. lia. Qed.

Lemma usub64_sub64 a b : usub 64 a b = sub64 a b.
Proof. reflexivity. Qed.

Definition fail_code : res (bool * option err) := Val (false, Some (ESent ErrInvalidCode)).

