(** C03 — HOTP validation accepts exactly the codes of counters inside the window. *)
From Coq Require Import String.
From OtpV Require Import Prelude Sha Tables Decoder Derive Otp Rfc4226 DeriveProofs OtpProofs Errors.
Open Scope N_scope.

(** "if and only if": [c - s] is truncated subtraction on N, i.e. max(0, c - s) *)
Theorem C03_iff : forall secret key code c d per s a,
  decode_secret secret = Ok key -> 1 <= d <= 10 -> s <= 10 -> c + s < 2 ^ 64 ->
  (fst (validate_hotp secret code c (Some (mkParam d per s (N_of_alg a)))) = Ok (true, None)
   <-> exists c', c - s <= c' <= c + s /\ code = hotp_value hmac a key c' (N.to_nat d)).
Proof. exact (validate_hotp_iff hmac hmac_length hmac_wf). Qed.
Print Assumptions C03_iff.

(** every generated code validates at its own counter, for every window *)
Theorem C03_self : forall secret key c d per s a code,
  decode_secret secret = Ok key -> 1 <= d <= 10 -> s <= 10 -> c + s < 2 ^ 64 ->
  generate_hotp secret c (Some (mkParam d per s (N_of_alg a))) = Ok code ->
  fst (validate_hotp secret code c (Some (mkParam d per s (N_of_alg a)))) = Ok (true, None).
Proof.
  intros secret key c d per s a code Hk Hd Hs Hc Hg.
  rewrite (generate_hotp_value hmac hmac_length hmac_wf _ key) in Hg by assumption.
  inversion Hg; subst. apply (C03_iff _ key); try assumption.
  exists c. split; [lia|reflexivity].
Qed.
Print Assumptions C03_self.

(** a window larger than 10 is refused, without any work *)
Theorem C03_refuse : forall secret code c d per s algo,
  10 < s -> validate_hotp secret code c (Some (mkParam d per s algo)) = (Ok (false, Some (ESent ErrInvalidSkew)), O).
Proof. exact (validate_hotp_refuse hmac hmac_length hmac_wf). Qed.
Print Assumptions C03_refuse.

(** absent parameters mean 6 digits, SHA-1, window 2 *)
Theorem C03_nil_param : forall secret code c,
  validate_hotp secret code c None = validate_hotp secret code c (Some (mkParam 6 0 2 0)).
Proof. exact (validate_hotp_nil hmac hmac_length hmac_wf). Qed.
Print Assumptions C03_nil_param.

(** the verdict is (true, nil) or (false, error), and a rejection is never a panic *)
Theorem C03_verdict : forall secret code c p,
  exists k, validate_hotp secret code c p = (Ok (true, None), k)
         \/ exists e, validate_hotp secret code c p = (Ok (false, Some e), k).
Proof. exact (validate_hotp_verdict hmac hmac_length hmac_wf). Qed.
Print Assumptions C03_verdict.

(** non-vacuity: the RFC key, window 1 at counter 2^63+5 accepts the code of 2^63+4 (the case the
    pinned tree got wrong), and rejects the code of 2^63+3 *)
Example C03_high_counter :
  let secret := s2b "GEZDGNBVGY3TQOJQGEZDGNBVGY3TQOJQ"%string in
  let c := 9223372036854775813 in
  forall code4 code3,
  generate_hotp secret (c - 1) None = Ok code4 -> generate_hotp secret (c - 2) None = Ok code3 ->
  fst (validate_hotp secret code4 c (Some (mkParam 6 0 1 0))) = Ok (true, None) /\
  fst (validate_hotp secret code3 c (Some (mkParam 6 0 1 0))) = Ok (false, Some (ESent ErrInvalidCode)).
Proof. vm_compute. intros code4 code3 H4 H3. inversion H4; inversion H3; subst. split; reflexivity. Qed.
