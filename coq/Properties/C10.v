(** C10 — no public operation panics; bad arguments are reported as errors.
    In the model every Go operation that can panic (index, slice bound, division, make with a
    negative length, map-less table lookup) has the explicit outcome [Panic]; the theorems say
    that no exported operation has that outcome, for every argument value.  Hangs are excluded
    by construction (total functions) together with the work bounds of C04.
    Excluded exactly as the property excludes them: MustRawSuite / MustHexPadLeft, user-defined Suite values (typed nil pointers included), LeftPadHex widths above 2^20, a replaced TimeCounterFunc.
    Operations whose model has no [outcome] type at all (To8ByteBigEndian, DigitsFromStr,
    AlgorithmFromStr, Digits.Int, Algorithm.String, ListSuites, IsKnownSuite, SuiteConfigFromRaws,
    Config/String of suites) are total Gallina functions with no partial primitive inside. *)
From Coq Require Import String.
From OtpV Require Import Prelude Sha Errors Decoder Derive Otp Ocra Utils Random Suite Url OtpProofs OcraProofs TotalProofs.
Open Scope N_scope.

Theorem C10_decode_secret : forall s, decode_secret s <> Panic.
Proof. exact decode_secret_no_panic. Qed.
Print Assumptions C10_decode_secret.

(** every secret, counter, instant, and every parameter value (code length, hash, period, skew
    over all of N, absent parameters included) *)
Theorem C10_hotp : forall secret code c p, generate_hotp secret c p <> Panic /\ fst (validate_hotp secret code c p) <> Panic.
Proof. intros. split; [apply (generate_hotp_total hmac hmac_length hmac_wf)|apply (validate_hotp_total hmac hmac_length hmac_wf)]. Qed.
Print Assumptions C10_hotp.

Theorem C10_totp : forall secret code unix p, generate_totp secret unix p <> Panic /\ fst (validate_totp secret code unix p) <> Panic.
Proof. intros. split; [apply (generate_totp_total hmac hmac_length hmac_wf)|apply (validate_totp_total hmac hmac_length hmac_wf)]. Qed.
Print Assumptions C10_totp.

(** every suite configuration (any digits, hash, formats, flags, steps) and every input *)
Theorem C10_ocra : forall secret code cfg i,
  generate_ocra secret cfg i <> Panic /\ fst (validate_ocra secret code cfg i) <> Panic /\
  derive_rfc6287 secret cfg i <> Panic.
Proof.
  intros. split; [apply (generate_ocra_total hmac hmac_length hmac_wf)|].
  split; [apply (validate_ocra_total hmac hmac_length hmac_wf)|apply (derive_rfc6287_total hmac hmac_length hmac_wf)].
Qed.
Print Assumptions C10_ocra.

Theorem C10_random_secret : forall algo s pos, fst (random_secret algo s pos) <> Panic.
Proof. exact random_secret_total. Qed.
Print Assumptions C10_random_secret.

Theorem C10_helpers : forall s c q p se t n,
  parse_decimal_be8 s <> Panic /\ parse_hex_timestamp s <> Panic /\ parse_decimal_challenge s <> Panic /\
  hex_input_to_ocra c q p se t <> Panic /\ left_pad_hex s n <> Panic.
Proof.
  intros. repeat split; [apply parse_decimal_be8_total|apply parse_hex_timestamp_total|apply parse_decimal_challenge_total|
                         apply hex_input_to_ocra_total|apply left_pad_hex_total].
Qed.
Print Assumptions C10_helpers.

Theorem C10_suites : forall raw cfg, new_raw_suite raw <> Panic /\ parse_raw_suite raw <> Panic /\ new_suite cfg <> Panic.
Proof. intros. repeat split; [apply new_raw_suite_total|apply parse_raw_suite_total|apply new_suite_total]. Qed.
Print Assumptions C10_suites.

Theorem C10_urls : forall p u,
  generate_totp_url p <> Panic /\ generate_hotp_url p <> Panic /\ parse_otpauth_url u <> Panic.
Proof. intros. repeat split; [apply generate_otp_url_total|apply generate_otp_url_total|apply parse_otpauth_url_total]. Qed.
Print Assumptions C10_urls.

(** the hypotheses are not vacuous: the pinned tree's panicking arguments are answered with errors *)
Example C10_witnesses :
  is_err (generate_hotp (s2b "GEZDGNBVGY3TQOJQ") 0 (Some (mkParam 0 0 0 0))) = true /\
  is_err (generate_hotp (s2b "GEZDGNBVGY3TQOJQ") 0 (Some (mkParam 11 0 0 0))) = true /\
  is_err (generate_hotp (s2b "GEZDGNBVGY3TQOJQ") 0 (Some (mkParam 6 0 0 3))) = true /\
  is_ok (generate_totp (s2b "GEZDGNBVGY3TQOJQ") 59 (Some (mkParam 6 0 0 0))) = true /\
  is_err (new_raw_suite (s2b "OCRA-1:HOTP-SHA1-6:QN08-T1X")) = true.
Proof. vm_compute. repeat split. Qed.
