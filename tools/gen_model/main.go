// gen_model translates a fixed list of functions of github.com/ja7ad/otp from Go source (go/ast + go/types)
// into Gallina definitions (Generated/Src.v) over the semantics of Base/GoSem.v.
//
//	gen_model <repo> <out.v> <report.json> [-skip name,name...]
//
// A function that uses a construct outside the supported fragment is not emitted (nor is anything that calls
// it); the report says why.  The translation is syntax-directed: statements become a term in
// continuation-passing style (`do x <- e; k`, `if c then a else b`, join points as local functions), loops
// become top-level fixpoints on fuel, every operation that can panic in Go returns Pnc.
package main

import (
	"encoding/json"
	"fmt"
	"go/ast"
	"go/token"
	"go/types"
	"os"
	"sort"
	"strings"

	"golang.org/x/tools/go/packages"
)

// the js/wasm build of the library: its own derivation and validation (derive_rfc4226_wasm.go, validate_wasm.go)
var wantedWasm = []string{"Digits.Int", "truncate", "pow10Wasm", "DeriveRFC4226Wasm", "ValidateOTPWasm"}

// the binding (wasm/main.go): argument parsing, the five callbacks with their own window loops
var wantedMain = []string{"parseStringArg", "parseIntArg", "generateOTP", "parseArgsAndGenerate", "generateHOTP", "generateTOTP",
	"validateHOTP", "validateTOTP", "generateOTPURL"}

// the functions to translate, callees before callers
var wanted = []string{
	"Digits.Int", "DecodeSecret",
	"unsafeString", "truncate", "shortDigit", "longDigit", "formatDecimal", "padBytes",
	"deriveRFC4226",
	"validate", "validateRFC4226",
	"TimeCounterFunc",
	"GenerateHOTP", "ValidateHOTP", "GenerateTOTP", "ValidateTOTP",
	"challengeLength", "SuiteConfig.Validate", "SuiteConfig.Config", "RawSuite.Validate", "RawSuite.Config",
	"OCRAInput.Validate",
	"deriveRFC6287", "validateRFC6287", "GenerateOCRA", "ValidateOCRA",
	"DigitsFromStr", "AlgorithmFromStr",
	"parseTimeGranularity", "parseCryptoFunction", "parseDataInputTokens", "parseRawSuite",
	"NewRawSuite", "SuiteConfig.String", "RawSuite.String", "MustRawSuite", "NewSuite", "IsKnownSuite", "SuiteConfigFromRaws", "ListSuites",
	"To8ByteBigEndian", "ParseDecimalToBigEndian8", "ParseDecimal64BigEndian", "LeftPadHex", "MustHexPadLeft",
	"ParseHexTimestamp", "ParseDecimalChallengeRFC6287", "HexInputToOCRA", "RandomSecret",
	"Algorithm.String", "generateOTPURL", "GenerateTOTPURL", "GenerateHOTPURL", "ParseOTPAuthURL",
}

type tr struct {
	pkg          *packages.Package
	info         *types.Info
	fset         *token.FileSet
	decls        map[string]*ast.FuncDecl // "name" or "Recv.name"
	lits         map[string]*ast.FuncLit  // package-level func variables
	done         map[string]*fnInfo
	failed       map[string]string
	out          []string
	skip         map[string]bool
	consts       []string // harvested literals (for the input generators)
	globalNames  map[string]string
	globalTables map[string]bool
	globalAssoc  map[string]bool
	ifaceUsed    map[string]bool
	structsBad   string
	mainMode     bool // translating wasm/main.go (package main): errors are their text, library calls go to Src / SrcWasm
	restMode     bool // translating internal/app/api (with mainMode's conventions for errors and library calls)
	badStructs   map[string]string
	hasDecode    map[string]bool
	hasMarshal   map[string]bool
	libSigs      map[string]libFn // REST mode: the library functions as Generated/Src.v declares them
}

type fnInfo struct {
	name      string // Coq name
	needsFuel bool
	pools     []string // pool oracle parameters, in order
	resT      string
	inout     []int // indexes of in/out (pointer) parameters among the arguments
	nres      int
}

type unsupported struct{ msg string }

func (t *tr) fail(n ast.Node, format string, a ...any) {
	pos := ""
	if n != nil {
		p := t.fset.Position(n.Pos())
		pos = fmt.Sprintf("%s:%d: ", shortFile(p.Filename), p.Line)
	}
	panic(unsupported{pos + fmt.Sprintf(format, a...)})
}

func shortFile(f string) string {
	if i := strings.LastIndex(f, "/"); i >= 0 {
		return f[i+1:]
	}
	return f
}

func coqName(q string) string { return strings.ReplaceAll(q, ".", "_") }

func main() {
	if len(os.Args) < 4 {
		fmt.Fprintln(os.Stderr, "usage: gen_model <repo> <out.v> <report.json> [-skip a,b]")
		os.Exit(2)
	}
	repo, out, report := os.Args[1], os.Args[2], os.Args[3]
	t := &tr{decls: map[string]*ast.FuncDecl{}, lits: map[string]*ast.FuncLit{}, done: map[string]*fnInfo{}, failed: map[string]string{}, skip: map[string]bool{}}
	wasm := false
	for i := 4; i < len(os.Args); i++ {
		if os.Args[i] == "-wasm" {
			wasm = true
			wanted = wantedWasm
		}
		if os.Args[i] == "-main" {
			wasm = true
			t.mainMode = true
			wanted = wantedMain
		}
		if os.Args[i] == "-rest" {
			t.mainMode, t.restMode = true, true
			wanted = wantedRest
			t.badStructs, t.hasDecode, t.hasMarshal = map[string]string{}, map[string]bool{}, map[string]bool{}
		}
		if os.Args[i] == "-lib" && i+1 < len(os.Args) {
			t.libSigs = readLibSigs(os.Args[i+1])
		}
		if os.Args[i] == "-skip" && i+1 < len(os.Args) {
			for _, s := range strings.Split(os.Args[i+1], ",") {
				if s != "" {
					t.skip[s] = true
				}
			}
		}
	}
	t.fset = token.NewFileSet()
	env := os.Environ()
	if wasm {
		env = append(env, "GOOS=js", "GOARCH=wasm")
	}
	cfg := &packages.Config{Mode: packages.LoadAllSyntax, Dir: repo, Env: env, Fset: t.fset}
	pattern := "."
	if t.mainMode {
		pattern = "./wasm"
	}
	if t.restMode {
		pattern = "./internal/app/api"
	}
	pkgs, err := packages.Load(cfg, pattern)
	if err != nil || len(pkgs) != 1 || packages.PrintErrors(pkgs) > 0 {
		fmt.Fprintln(os.Stderr, "gen_model: load failed", err)
		os.Exit(1)
	}
	t.pkg = pkgs[0]
	t.info = t.pkg.TypesInfo
	for _, f := range t.pkg.Syntax {
		for _, d := range f.Decls {
			switch d := d.(type) {
			case *ast.FuncDecl:
				if d.Body == nil {
					continue
				}
				name := d.Name.Name
				if d.Recv != nil && len(d.Recv.List) == 1 {
					rt := d.Recv.List[0].Type
					if s, ok := rt.(*ast.StarExpr); ok {
						rt = s.X
					}
					if id, ok := rt.(*ast.Ident); ok {
						name = id.Name + "." + name
					}
				}
				t.decls[name] = d
			case *ast.GenDecl:
				for _, sp := range d.Specs {
					if vs, ok := sp.(*ast.ValueSpec); ok && len(vs.Names) == 1 && len(vs.Values) == 1 {
						if fl, ok := vs.Values[0].(*ast.FuncLit); ok {
							t.lits[vs.Names[0].Name] = fl
						}
					}
				}
			}
		}
	}
	t.harvest()
	var b strings.Builder
	b.WriteString("(* GENERATED from the Go sources of " + repo + " by /verif/tools/gen_model — do not edit. *)\n")
	b.WriteString("From Coq Require Import String.\nFrom OtpV Require Import Prelude Sha GoSem Rfc4648 Errors Decoder Otp Ocra Utils Suite Url.\nOpen Scope N_scope.\n\n")
	if t.restMode {
		if msg := t.checkStructs(); msg != "" {
			b.WriteString("(* " + msg + " *)\n")
			t.structsBad = msg
		}
		b.WriteString(t.restHeader())
	} else if t.mainMode {
		b.WriteString("From OtpV Require Import Wasm Src SrcWasm.\n")
		b.WriteString("Definition js_type_go (v : jsval) : res bytes := match js_type_name v with Some n => Val n | None => Pnc end.\n")
		b.WriteString("Definition js_string_go (v : jsval) : bytes := match v with JStr s => s | _ => [] end.\n")
		b.WriteString("Definition js_int_go (v : jsval) : res Z := match v with JNum n => Val (js_int n) | _ => Pnc end.\n")
		b.WriteString("Definition idxJ (l : list jsval) (i : Z) : res jsval := if (i <? 0)%Z then Pnc else match nth_error l (Z.to_nat i) with Some v => Val v | None => Pnc end.\n")
		b.WriteString("Definition err_text (e : err) : bytes := match render e with Some t => t | None => s2b \"?\" end.\n\n")
	} else {
		b.WriteString(t.globals())
	}
	for _, q := range wanted {
		t.translate(q)
	}
	for _, s := range t.out {
		b.WriteString(s)
		b.WriteString("\n")
	}
	if err := os.WriteFile(out, []byte(b.String()), 0o644); err != nil {
		fmt.Fprintln(os.Stderr, err)
		os.Exit(1)
	}
	// line ranges of the package's functions (declarations and package-level function literals), for the coverage pass
	var ranges [][3]any
	for _, f := range t.pkg.Syntax {
		fname := shortFile(t.fset.Position(f.Pos()).Filename)
		for _, d := range f.Decls {
			switch d := d.(type) {
			case *ast.FuncDecl:
				if d.Body != nil {
					ranges = append(ranges, [3]any{fname, t.fset.Position(d.Pos()).Line, t.fset.Position(d.End()).Line})
				}
			case *ast.GenDecl:
				for _, sp := range d.Specs {
					if vs, ok := sp.(*ast.ValueSpec); ok {
						for _, v := range vs.Values {
							ast.Inspect(v, func(n ast.Node) bool {
								if fl, ok := n.(*ast.FuncLit); ok {
									ranges = append(ranges, [3]any{fname, t.fset.Position(fl.Pos()).Line, t.fset.Position(fl.End()).Line})
									return false
								}
								return true
							})
						}
					}
				}
			}
		}
	}
	rep := map[string]any{"translated": keys(t.done), "untranslated": t.failed, "literals": t.consts, "funcs": ranges}
	js, _ := json.MarshalIndent(rep, "", " ")
	os.WriteFile(report, js, 0o644)
	fmt.Fprintf(os.Stderr, "gen_model: %d functions translated, %d not (%s)\n", len(t.done), len(t.failed), strings.Join(keysS(t.failed), ", "))
}

func keys(m map[string]*fnInfo) []string {
	ks := []string{}
	for k := range m {
		ks = append(ks, k)
	}
	sort.Strings(ks)
	return ks
}
func keysS(m map[string]string) []string {
	var ks []string
	for k := range m {
		ks = append(ks, k)
	}
	sort.Strings(ks)
	return ks
}

// harvest collects the integer and string literals of the non-test sources: the differential generators use
// them (and their neighbours) as inputs, so that behaviour keyed on a particular value is exercised.
func (t *tr) harvest() {
	seen := map[string]bool{}
	for _, f := range t.pkg.Syntax {
		ast.Inspect(f, func(n ast.Node) bool {
			if bl, ok := n.(*ast.BasicLit); ok && (bl.Kind == token.INT || bl.Kind == token.STRING || bl.Kind == token.CHAR) {
				if tv, ok := t.info.Types[bl]; ok && tv.Value != nil {
					s := tv.Value.ExactString()
					if len(s) < 200 && !seen[s] {
						seen[s] = true
						t.consts = append(t.consts, s)
					}
				}
			}
			return true
		})
	}
	sort.Strings(t.consts)
}

func (t *tr) translate(q string) {
	if t.skip[q] {
		t.failed[q] = "skipped on request (its translation did not compile)"
		return
	}
	defer func() {
		if r := recover(); r != nil {
			if u, ok := r.(unsupported); ok {
				t.failed[q] = u.msg
				return
			}
			panic(r)
		}
	}()
	var ftype *ast.FuncType
	var body *ast.BlockStmt
	var recv *ast.FieldList
	if d, ok := t.decls[q]; ok && t.restMode && handlerLit(d) != nil {
		fl := handlerLit(d)
		ftype, body = fl.Type, fl.Body
	} else if d, ok := t.decls[q]; ok {
		ftype, body, recv = d.Type, d.Body, d.Recv
	} else if l, ok := t.lits[q]; ok {
		ftype, body = l.Type, l.Body
	} else {
		t.failed[q] = "no such function in the package"
		return
	}
	fc := newFctx(t, q)
	text := fc.function(recv, ftype, body)
	t.out = append(t.out, text)
	fi := &fnInfo{name: coqName(q), needsFuel: fc.needsFuel, pools: fc.poolList(), resT: fc.resT}
	if fc.sig != nil {
		fi.nres = fc.sig.Results().Len()
	}
	for i, pv := range fc.params {
		for _, io := range fc.inout {
			if io == pv {
				idx := i
				if recv != nil {
					idx = i - recv.NumFields()
				}
				fi.inout = append(fi.inout, idx)
			}
		}
	}
	t.done[q] = fi
}
