package main

import (
	"encoding/json"
	"os"
	"sort"
	"strconv"
)

// Integer literals of the repository's sources (harvested by tools/gen_model into the file named by VERIF_LITERALS)
// join the boundary tables of the generators, with their neighbours: behaviour keyed on a particular value that is
// written in the code is then exercised, not only the values the generators' authors thought of.
var periodChoices = []uint64{0, 1, 2, 29, 30, 31, 60, 3600, 1 << 31, 1 << 32}

func init() {
	path := os.Getenv("VERIF_LITERALS")
	if path == "" {
		return
	}
	raw, err := os.ReadFile(path)
	if err != nil {
		return
	}
	var rep struct {
		Literals []string `json:"literals"`
	}
	if json.Unmarshal(raw, &rep) != nil {
		return
	}
	seen := map[uint64]bool{}
	for _, v := range boundaryCounters {
		seen[v] = true
	}
	var add []uint64
	for _, l := range rep.Literals {
		v, err := strconv.ParseUint(l, 10, 64)
		if err != nil || v < 12 {
			continue
		}
		for _, x := range []uint64{v - 1, v, v + 1} {
			if !seen[x] {
				seen[x] = true
				add = append(add, x)
			}
		}
	}
	sort.Slice(add, func(i, j int) bool { return add[i] < add[j] })
	if len(add) > 400 {
		add = add[:400]
	}
	boundaryCounters = append(boundaryCounters, add...)
	for _, x := range add {
		if x < 1<<40 {
			periodChoices = append(periodChoices, x)
		}
	}
}
