(** C15 — a suite's configuration always means what its suite string says.
    Spec/SuiteName.v is the RFC 6287 naming scheme (abstract names, their printer, what a name
    denotes, and a strict reader of names); Model/Suite.v is the registry (regenerated from
    suite_rfc6287.go on every run) and the parser. *)
From Coq Require Import String.
From OtpV Require Import Prelude Sha Errors Ocra Suite SuiteName OcraProofs SuiteProofs NameProofs.
Open Scope N_scope.

(** every advertised name, read under the naming scheme, prints back to itself and denotes
    exactly its registered configuration (hash, digits, C/Q/P/S/T, challenge format, password
    hash, time step) — all 45 entries of the regenerated table *)
Theorem C15_registry : forall name cfg, In (name, cfg) known_suites ->
  exists a, read_name name = Some a /\ print_name a = name /\ denote a = denotation_of cfg /\ sc_raw cfg = [].
Proof. exact registry_faithful. Qed.
Print Assumptions C15_registry.

(** the advertised list, the known-suite test and lookup by name agree with one another *)
Theorem C15_views_agree : forall raw,
  (is_known_suite raw = true <-> In raw list_suites) /\
  (is_known_suite raw = true -> exists c, In (raw, c) known_suites /\ suite_config_from_raws raw = c) /\
  (is_known_suite raw = false -> suite_config_from_raws raw = zero_cfg).
Proof. exact registry_views_agree. Qed.
Print Assumptions C15_views_agree.

Theorem C15_names_distinct : nodupb list_suites = true /\ length known_suites = 45%nat.
Proof. split; [exact registry_names_distinct|exact registry_size]. Qed.
Print Assumptions C15_names_distinct.

(** every advertised name can be instantiated and yields its registered configuration *)
Theorem C15_instantiates : forall name cfg, In (name, cfg) known_suites -> new_raw_suite name = Ok (with_raw cfg name).
Proof. exact registered_name_instantiates. Qed.
Print Assumptions C15_instantiates.

(** the parser, on every name of the scheme (any digits numeral, any time value): if it accepts,
    the configuration is exactly what the name denotes *)
Theorem C15_parser_faithful : forall a c,
  parse_raw_suite (print_name a) = Ok c -> c = cfg_of_denote a (print_name a) /\ numeric_or_no_question a.
Proof. exact parse_print_faithful. Qed.
Print Assumptions C15_parser_faithful.

(** … and it accepts every name it can represent *)
Theorem C15_parser_complete : forall a, representable a -> parse_raw_suite (print_name a) = Ok (cfg_of_denote a (print_name a)).
Proof. exact parse_print_complete. Qed.
Print Assumptions C15_parser_complete.

(** NewRawSuite on a name of the scheme: the registered configuration (C15_registry says what it
    denotes) or exactly the denotation of the name *)
Theorem C15_new_raw_suite : forall a c,
  new_raw_suite (print_name a) = Ok c ->
  (exists k, In (print_name a, k) known_suites /\ c = with_raw k (print_name a)) \/
  (is_known_suite (print_name a) = false /\ c = cfg_of_denote a (print_name a)).
Proof. exact new_raw_suite_print. Qed.
Print Assumptions C15_new_raw_suite.

(** a suite instantiated from any string reports that string as its name and is usable *)
Theorem C15_reports_name : forall raw c, new_raw_suite raw = Ok c -> sc_raw c = raw /\ usable c.
Proof. exact new_raw_suite_reports_name. Qed.
Print Assumptions C15_reports_name.

(** strings the parser cannot represent faithfully are rejected: digits outside 4..10,
    alphanumeric / hexadecimal questions, a number of ':'-separated parts other than three,
    a version other than OCRA-1 *)
Theorem C15_reject_unrepresentable : forall a,
  (a_digits a < 4 \/ 10 < a_digits a \/ ~ numeric_or_no_question a) -> exists e, parse_raw_suite (print_name a) = Err e.
Proof. exact parse_print_reject. Qed.
Print Assumptions C15_reject_unrepresentable.

Theorem C15_reject_parts : forall raw, count_colons raw <> 2%nat -> exists e, parse_raw_suite raw = Err e.
Proof. exact parse_reject_parts. Qed.
Print Assumptions C15_reject_parts.

Theorem C15_reject_version : forall v rest,
  Forall (fun c => c <> 58) v -> v <> s2b "OCRA-1" -> exists e, parse_raw_suite (v ++ 58 :: rest) = Err e.
Proof. exact parse_reject_version. Qed.
Print Assumptions C15_reject_version.

(** the strict reader recovers an abstract name from its printed form, so the printer is
    injective: a string of the scheme says exactly one thing *)
Theorem C15_name_says_one_thing : forall a a', wf_ast a -> wf_ast a' ->
  read_name (print_name a) = Some a /\ (print_name a = print_name a' -> a = a').
Proof. intros a a' H H'. split; [apply read_print; exact H|apply print_injective; assumption]. Qed.
Print Assumptions C15_name_says_one_thing.

(** the property in one statement: whatever NewRawSuite returns for a name of the scheme — a
    registered configuration or a parsed one — denotes exactly what the name says and reports
    the name *)
Theorem C15_faithful : forall a c, wf_ast a ->
  new_raw_suite (print_name a) = Ok c -> denotation_of c = denote a /\ sc_raw c = print_name a.
Proof. exact new_raw_suite_faithful. Qed.
Print Assumptions C15_faithful.

(** non-vacuity *)
Example C15_examples :
  let a := mkAst SHA256 8 true (Some (QNum, true)) (Some SHA1) (Some (Some 64)) (Some (5, UMin)) in
  print_name a = s2b "OCRA-1:HOTP-SHA256-8:C-QN10-PSHA1-S064-T5M" /\ representable a /\
  new_raw_suite (print_name a) = Ok (mkSuite (print_name a) 1 8 2 true true true true true 1 300) /\
  is_known_suite (s2b "OCRA-1:HOTP-SHA512-8:QH10-S-T1") = true /\
  is_err (new_raw_suite (s2b "OCRA-1:HOTP-SHA1-7:QA08")) = true /\
  is_err (new_raw_suite (s2b "OCRA-10:HOTP-SHA1-6:QN08")) = true /\
  is_err (new_raw_suite (s2b "OCRA-1:HOTP-SHA1-6:QN08-T5124095576030432H")) = true.
Proof.
  cbv zeta. repeat split; try (vm_compute; reflexivity); try (vm_compute; discriminate); try exact I.
  all: vm_compute; try congruence; intros H; discriminate H.
Qed.
