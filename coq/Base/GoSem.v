(** Semantics of the Go fragment that tools/gen_model translates (Generated/Src.v).
    Every translated function returns [res T]: a value, a run-time panic, or exhausted fuel
    (loops are translated to recursion on explicit fuel).  Unsigned integers are [N] with the
    wrap written at every operation, [int]/[int64] are [Z] with [wrap_int64]; strings, byte slices
    and byte arrays are [bytes] with value semantics (aliasing is the business of Mem.v and
    of the alias analysis, not of this translation). *)
From OtpV Require Import Prelude Sha.
Open Scope N_scope.

Inductive res (A : Type) :=
| Val (a : A)
| Pnc
| OutOfFuel.
Arguments Val {A} a.
Arguments Pnc {A}.
Arguments OutOfFuel {A}.

Definition rbind {A B} (r : res A) (f : A -> res B) : res B :=
  match r with Val a => f a | Pnc => Pnc | OutOfFuel => OutOfFuel end.
Notation "'do' x <- e ; k" := (rbind e (fun x => k)) (at level 200, x pattern, e at level 100, k at level 200).

Definition is_some {A} (o : option A) : bool := match o with Some _ => true | None => false end.

(** ---- integers ---- *)
Definition usub (bits : N) (a b : N) : N := (a + 2 ^ bits - b mod 2 ^ bits) mod 2 ^ bits.
Definition usub64 := usub 64.
Definition usub32 := usub 32.
Definition usub8 := usub 8.
(** T(z) for an unsigned T of [bits] bits and a signed z *)
Definition of_int (bits : N) (z : Z) : N := Z.to_N (z mod 2 ^ Z.of_N bits)%Z.
Definition udiv (a b : N) : res N := if b =? 0 then Pnc else Val (a / b).
Definition umod (a b : N) : res N := if b =? 0 then Pnc else Val (a mod b).
(** signed division truncates toward zero; MinInt64 / -1 wraps *)
Definition sdiv (a b : Z) : res Z := if (b =? 0)%Z then Pnc else Val (wrap_int64 (Z.quot a b)).
Definition smod (a b : Z) : res Z := if (b =? 0)%Z then Pnc else Val (Z.rem a b).

(** ---- byte strings, slices, arrays ---- *)
Definition idx (s : bytes) (i : Z) : res N :=
  if (i <? 0)%Z then Pnc
  else match nth_error s (Z.to_nat i) with Some b => Val b | None => Pnc end.
Definition idxN (s : list N) (i : Z) : res N := idx s i.
Definition set_idx (s : bytes) (i : Z) (v : N) : res bytes :=
  if (i <? 0)%Z || (zlen s <=? i)%Z then Pnc else Val (upd (Z.to_nat i) v s).
(** s[lo:hi]; capacity beyond the length is not modelled: hi > len panics *)
Definition slice (s : bytes) (lo hi : Z) : res bytes :=
  if (lo <? 0)%Z || (hi <? lo)%Z || (zlen s <? hi)%Z then Pnc
  else Val (firstn (Z.to_nat (hi - lo)) (skipn (Z.to_nat lo) s)).
Definition make_bytes (n : Z) : res bytes := if (n <? 0)%Z then Pnc else Val (repeat 0 (Z.to_nat n)).
(** copy(dst, src): the new content of dst *)
Definition copy_into (dst src : bytes) : bytes :=
  firstn (length dst) src ++ skipn (length src) dst.
(** binary.BigEndian.PutUint64(dst, v): panics when dst is shorter than 8 bytes *)
Definition be64 (v : N) : bytes :=
  map (fun i => N.land (N.shiftr v (8 * N.of_nat i)) 255) [7; 6; 5; 4; 3; 2; 1; 0]%nat.
Definition put_uint64 (dst : bytes) (v : N) : res bytes :=
  if Nat.ltb (length dst) 8 then Pnc else Val (be64 v ++ skipn 8 dst).
(** subtle.ConstantTimeCompare *)
Fixpoint beqb (a b : bytes) : bool :=
  match a, b with
  | [], [] => true
  | x :: a', y :: b' => (x =? y) && beqb a' b'
  | _, _ => false
  end.
Definition ct_compare (a b : bytes) : Z := if beqb a b then 1%Z else 0%Z.
(** strings.Repeat(s, n): panics for negative n *)
Definition str_repeat (s : bytes) (n : Z) : res bytes :=
  if (n <? 0)%Z then Pnc else Val (concat (repeat s (Z.to_nat n))).

(** ---- pointers ---- *)
Definition deref {A} (p : option A) : res A := match p with Some a => Val a | None => Pnc end.

(** ---- hash.Hash as a value: hmac.New(h, key), Write, Sum ---- *)
Record hstate := mkH { h_alg : alg; h_key : bytes; h_msg : bytes }.
Definition hmac_new (a : alg) (key : bytes) : hstate := mkH a key [].
Definition hash_write (h : hstate) (p : bytes) : hstate := mkH (h_alg h) (h_key h) (h_msg h ++ p).
Definition hash_sum (h : hstate) (prefix : bytes) : bytes := prefix ++ hmac (h_alg h) (h_key h) (h_msg h).
(** &hmacPools[i]: the i-th constructor of the table (SHA-1, SHA-256, SHA-512 in the order of the
    composite literal, which the translator reads) *)
Definition pool_at (tbl : list alg) (i : Z) : res alg :=
  if (i <? 0)%Z then Pnc else match nth_error tbl (Z.to_nat i) with Some a => Val a | None => Pnc end.

(** ---- small lemmas used by the equivalence proofs ---- *)
Lemma wrap_int64_small z : (- 9223372036854775808 <= z < 9223372036854775808)%Z -> wrap_int64 z = z.
Proof.
  intros H. unfold wrap_int64, to_int64, of_int64, two63, two64.
  change (Z.of_N 18446744073709551616) with 18446744073709551616%Z.
  destruct (Z_lt_dec z 0) as [Hn|Hn].
  - assert (E : (z mod 18446744073709551616 = z + 18446744073709551616)%Z).
    { symmetry. apply Z.mod_unique with (q := (-1)%Z); lia. }
    rewrite E.
    destruct (N.ltb_spec (Z.to_N (z + 18446744073709551616)) 9223372036854775808); lia.
  - rewrite Z.mod_small by lia.
    destruct (N.ltb_spec (Z.to_N z) 9223372036854775808); lia.
Qed.

Lemma rbind_val {A B} (a : A) (f : A -> res B) : rbind (Val a) f = f a.
Proof. reflexivity. Qed.

Lemma beqb_refl a : beqb a a = true.
Proof. induction a as [|x a IH]; simpl; [reflexivity|]. rewrite N.eqb_refl. exact IH. Qed.
