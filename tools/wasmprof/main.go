//go:build js && wasm

// wasmprof: one call of the js/wasm build's validator, for C09's path profiles.  Built with Go's block counters
// (-cover -covermode=count) for GOOS=js GOARCH=wasm and run under node, one process per call:
//
//	wasmprof <key hex> <code> <counter> <digits> <algorithm>
//
// prints the verdict; the counters are written to GOCOVERDIR when the program ends.
package main

import (
	"encoding/hex"
	"fmt"
	"os"
	"strconv"

	"github.com/ja7ad/otp"
)

func main() {
	if len(os.Args) != 6 {
		fmt.Println("usage")
		os.Exit(2)
	}
	key, _ := hex.DecodeString(os.Args[1])
	counter, _ := strconv.ParseUint(os.Args[3], 10, 64)
	digits, _ := strconv.Atoi(os.Args[4])
	algo, _ := strconv.Atoi(os.Args[5])
	if os.Args[2] == "-" { // the expected code itself
		code, err := otp.DeriveRFC4226Wasm(key, counter, digits, otp.Algorithm(algo))
		fmt.Println(code, err)
		return
	}
	ok, err := otp.ValidateOTPWasm(os.Args[2], key, counter, otp.Digits(digits), otp.Algorithm(algo))
	fmt.Println(ok, err)
}
