package main

// REST mode (-rest): the handlers of internal/app/api.  A handler `func h() fasthttp.RequestHandler { return func(ctx) {...} }`
// becomes `h (ctx : rctx) : res rctx` (the context is an in/out parameter: the request is read from it, the response is
// written into it).  The structs of dto.go become records generated here, with the decoder (json.Unmarshal) and the
// printer (json.Marshal) that their struct tags prescribe; encoding/json itself is the model's (Rest.v, RestSem.v).
// Not translated: the `details` maps of error answers (map[string]any — dropped), logging, the swagger handler.

import (
	"fmt"
	"go/ast"
	"go/types"
	"reflect"
	"sort"
	"strings"
)

const libPath = "github.com/ja7ad/otp"

var wantedRest = []string{"writeError",
	"otpGenerateReq.validate", "otpValidateReq.validate", "otpURLGenerateReq.validate", "ocraGenerateReq.validate", "ocraValidateReq.validate", "suiteConfigReq.validate",
	"totpGeneration", "totpValidation", "hotpGeneration", "hotpValidation", "otpURLGeneration", "generateRandomSecret",
	"ocraGeneration", "ocraValidation", "listOCRASuites", "ocraSuiteConfig", "home", "routers"}

// localStruct: a struct type declared in the translated package (REST mode only)
func (t *tr) localStruct(ty types.Type) (*types.Named, *types.Struct) {
	if !t.restMode {
		return nil, nil
	}
	n, ok := ty.(*types.Named)
	if !ok || n.Obj().Pkg() == nil || n.Obj().Pkg().Path() != t.pkg.PkgPath {
		return nil, nil
	}
	st, ok := n.Underlying().(*types.Struct)
	if !ok {
		return nil, nil
	}
	return n, st
}

func isDetails(ty types.Type) bool {
	m, ok := ty.Underlying().(*types.Map)
	if !ok {
		return false
	}
	k, ok := m.Key().Underlying().(*types.Basic)
	if !ok || k.Kind() != types.String {
		return false
	}
	i, ok := m.Elem().Underlying().(*types.Interface)
	return ok && i.NumMethods() == 0
}

func isRequestCtx(ty types.Type) bool {
	p, ok := ty.(*types.Pointer)
	if !ok {
		return false
	}
	n, ok := p.Elem().(*types.Named)
	return ok && n.Obj().Name() == "RequestCtx" && n.Obj().Pkg() != nil && strings.HasSuffix(n.Obj().Pkg().Path(), "valyala/fasthttp")
}

type jsonTag struct {
	name      string
	omitempty bool
	skip      bool
}

func tagOf(st *types.Struct, i int) jsonTag {
	tag := reflect.StructTag(st.Tag(i)).Get("json")
	if tag == "-" {
		return jsonTag{skip: true}
	}
	parts := strings.Split(tag, ",")
	jt := jsonTag{name: parts[0]}
	if jt.name == "" {
		jt.name = st.Field(i).Name()
	}
	for _, p := range parts[1:] {
		if p == "omitempty" {
			jt.omitempty = true
		}
	}
	return jt
}

// restHeader: the records of the package's structs, their zero values, field setters, decoders and printers
func (t *tr) restHeader() string {
	var b strings.Builder
	b.WriteString("From OtpV Require Import Rest RestSem Src.\n")
	b.WriteString("Definition err_text (e : err) : bytes := match render e with Some t => t | None => s2b \"?\" end.\n\n")
	scope := t.pkg.Types.Scope()
	var names []string
	for _, n := range scope.Names() {
		if tn, ok := scope.Lookup(n).(*types.TypeName); ok {
			if _, st := t.localStruct(tn.Type()); st != nil {
				names = append(names, n)
			}
		}
	}
	sort.Strings(names)
	// dependencies first
	done := map[string]bool{}
	var order []string
	var visit func(n string)
	visit = func(n string) {
		if done[n] {
			return
		}
		done[n] = true
		_, st := t.localStruct(scope.Lookup(n).Type())
		for i := 0; i < st.NumFields(); i++ {
			ft := st.Field(i).Type()
			if p, ok := ft.(*types.Pointer); ok {
				ft = p.Elem()
			}
			if dn, _ := t.localStruct(ft); dn != nil {
				visit(dn.Obj().Name())
			}
		}
		order = append(order, n)
	}
	for _, n := range names {
		visit(n)
	}
	for _, n := range order {
		func() {
			defer func() {
				if r := recover(); r != nil {
					if u, ok := r.(unsupported); ok {
						b.WriteString("(* struct " + n + " not translated: " + u.msg + " *)\n")
						t.badStructs[n] = u.msg
						return
					}
					panic(r)
				}
			}()
			b.WriteString(t.structDefs(n))
		}()
	}
	return b.String()
}

func (t *tr) structDefs(n string) string {
	obj := t.pkg.Types.Scope().Lookup(n)
	_, st := t.localStruct(obj.Type())
	var b strings.Builder
	var fields, zeros, args []string
	for i := 0; i < st.NumFields(); i++ {
		f := st.Field(i)
		if dn, _ := t.localStruct(derefT(f.Type())); dn != nil && t.badStructs[dn.Obj().Name()] != "" {
			t.fail(nil, "field %s of a struct that is not translated", f.Name())
		}
		fields = append(fields, fmt.Sprintf("%s_%s : %s", n, f.Name(), t.coqType(nil, f.Type())))
		zeros = append(zeros, t.zero(nil, f.Type()))
		args = append(args, fmt.Sprintf("(%s_%s r)", n, f.Name()))
	}
	fmt.Fprintf(&b, "Record t_%s := mk_%s { %s }.\n", n, n, strings.Join(fields, "; "))
	fmt.Fprintf(&b, "Definition zero_%s : t_%s := mk_%s %s.\n", n, n, n, strings.Join(zeros, " "))
	for i := 0; i < st.NumFields(); i++ {
		a := append([]string{}, args...)
		a[i] = "v"
		fmt.Fprintf(&b, "Definition set_%s_%s (r : t_%s) (v : %s) : t_%s := mk_%s %s.\n", n, st.Field(i).Name(), n, t.coqType(nil, st.Field(i).Type()), n, n, strings.Join(a, " "))
	}
	// decoder (json.Unmarshal into a zero value of the struct)
	dec := func() string {
		var scrut, pats, vals, wild []string
		for i := 0; i < st.NumFields(); i++ {
			f := st.Field(i)
			jt := tagOf(st, i)
			if jt.skip || isDetails(f.Type()) {
				vals = append(vals, t.zero(nil, f.Type()))
				continue
			}
			var d string
			switch t.kindOf(f.Type()) {
			case kBytes:
				if _, isStr := f.Type().Underlying().(*types.Basic); !isStr {
					return ""
				}
				d = "dec_string"
			case kI64:
				d = "dec_int64"
			case kU64:
				d = "dec_uint64"
			case kBool:
				d = "dec_bool"
			case kLocalPtr:
				d = "dec_ptr decode_" + derefT(f.Type()).(*types.Named).Obj().Name()
			default:
				return ""
			}
			v := fmt.Sprintf("a%d", i)
			scrut = append(scrut, fmt.Sprintf("%s (field %q f)", d, jt.name))
			pats = append(pats, "Some "+v)
			wild = append(wild, "_")
			vals = append(vals, v)
		}
		if len(scrut) == 0 {
			return ""
		}
		return fmt.Sprintf("Definition decode_%s (f : list (bytes * jv)) : option t_%s :=\n  match %s with\n  | %s => Some (mk_%s %s)\n  | %s => None\n  end.\n"+
			"Definition unmarshal_%s (b : body) : t_%s * option bytes :=\n  match body_fields b with\n  | Some f => match decode_%s f with Some r => (r, None) | None => (zero_%s, Some []) end\n  | None => (zero_%s, Some [])\n  end.\n",
			n, n, strings.Join(scrut, ",\n        "), strings.Join(pats, ", "), n, strings.Join(vals, " "), strings.Join(wild, ", "), n, n, n, n, n)
	}()
	if dec != "" {
		b.WriteString(dec)
		t.hasDecode[n] = true
	}
	// printer (json.Marshal)
	pr := func() string {
		var parts []string
		for i := 0; i < st.NumFields(); i++ {
			f := st.Field(i)
			jt := tagOf(st, i)
			if jt.skip || isDetails(f.Type()) {
				continue // details of error answers: not modelled
			}
			get := fmt.Sprintf("(%s_%s r)", n, f.Name())
			one := func(v string) string { return fmt.Sprintf("[(s2b %q, %s)]", jt.name, v) }
			switch t.kindOf(f.Type()) {
			case kBytes:
				if _, isStr := f.Type().Underlying().(*types.Basic); !isStr {
					return ""
				}
				if jt.omitempty {
					parts = append(parts, fmt.Sprintf("omit_str %q %s", jt.name, get))
				} else {
					parts = append(parts, one("OStr "+get))
				}
			case kI64:
				if jt.omitempty {
					parts = append(parts, fmt.Sprintf("omit_int %q %s", jt.name, get))
				} else {
					parts = append(parts, one("OInt "+get))
				}
			case kU64:
				if jt.omitempty {
					parts = append(parts, fmt.Sprintf("omit_int %q (Z.of_N %s)", jt.name, get))
				} else {
					parts = append(parts, one("OInt (Z.of_N "+get+")"))
				}
			case kBool:
				if jt.omitempty {
					parts = append(parts, fmt.Sprintf("omit_bool %q %s", jt.name, get))
				} else {
					parts = append(parts, one("OBool "+get))
				}
			case kStrList:
				if jt.omitempty {
					parts = append(parts, fmt.Sprintf("omit_list %q %s", jt.name, get))
				} else {
					parts = append(parts, one("OList (map OStr "+get+")"))
				}
			case kLocal:
				dn := f.Type().(*types.Named).Obj().Name()
				if !t.hasMarshal[dn] {
					return ""
				}
				parts = append(parts, one("marshal_"+dn+" "+get))
			case kLocalPtr:
				dn := derefT(f.Type()).(*types.Named).Obj().Name()
				if !t.hasMarshal[dn] {
					return ""
				}
				none := one("ONull")
				if jt.omitempty {
					none = "[]"
				}
				parts = append(parts, fmt.Sprintf("(match %s with Some x => %s | None => %s end)", get, one("marshal_"+dn+" x"), none))
			default:
				return ""
			}
		}
		if len(parts) == 0 {
			return ""
		}
		return fmt.Sprintf("Definition marshal_%s (r : t_%s) : jout := OObj (%s).\n", n, n, strings.Join(parts, " ++ "))
	}()
	if pr != "" {
		b.WriteString(pr)
		t.hasMarshal[n] = true
	}
	b.WriteString("\n")
	return b.String()
}

func derefT(ty types.Type) types.Type {
	if p, ok := ty.(*types.Pointer); ok {
		return p.Elem()
	}
	return ty
}

// handlerLit: `func h() fasthttp.RequestHandler { return func(ctx *fasthttp.RequestCtx) {...} }` -> the literal
func handlerLit(d *ast.FuncDecl) *ast.FuncLit {
	if d.Recv != nil || d.Type.Params.NumFields() != 0 || len(d.Body.List) != 1 {
		return nil
	}
	r, ok := d.Body.List[0].(*ast.ReturnStmt)
	if !ok || len(r.Results) != 1 {
		return nil
	}
	fl, _ := r.Results[0].(*ast.FuncLit)
	return fl
}

// the library functions the handlers call (their translations in Src); library errors become their text
var libFuncsRest = map[string]libFn{
	"DigitsFromStr":       {"Src.DigitsFromStr", false, nil, 1, false},
	"AlgorithmFromStr":    {"Src.AlgorithmFromStr", false, nil, 1, false},
	"GenerateTOTP":        {"Src.GenerateTOTP", true, []string{"junk_rfc4226BufPool"}, 2, true},
	"ValidateTOTP":        {"Src.ValidateTOTP", true, []string{"junk_rfc4226BufPool"}, 2, true},
	"GenerateHOTP":        {"Src.GenerateHOTP", true, []string{"junk_rfc4226BufPool"}, 2, true},
	"ValidateHOTP":        {"Src.ValidateHOTP", true, []string{"junk_rfc4226BufPool"}, 2, true},
	"GenerateOCRA":        {"Src.GenerateOCRA", true, []string{"junk_rfc6287BufPool"}, 2, true},
	"ValidateOCRA":        {"Src.ValidateOCRA", true, []string{"junk_rfc6287BufPool"}, 2, true},
	"GenerateTOTPURL":     {"Src.GenerateTOTPURL", true, nil, 2, true},
	"GenerateHOTPURL":     {"Src.GenerateHOTPURL", true, nil, 2, true},
	"RandomSecret":        {"Src.RandomSecret", false, []string{"junk_rand"}, 2, true},
	"NewSuite":            {"Src.NewSuite", false, nil, 2, true},
	"MustRawSuite":        {"Src.MustRawSuite", true, nil, 1, false},
	"HexInputToOCRA":      {"Src.HexInputToOCRA", false, nil, 2, true},
	"IsKnownSuite":        {"Src.IsKnownSuite", false, nil, 1, false},
	"SuiteConfigFromRaws": {"Src.SuiteConfigFromRaws", false, nil, 1, false},
	"ListSuites":          {"Src.ListSuites", true, nil, 1, false},
	"Algorithm.String":    {"Src.Algorithm_String", false, nil, 1, false},
	"SuiteConfig.String":  {"Src.SuiteConfig_String", false, nil, 1, false},
}
