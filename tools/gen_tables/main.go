// gen_tables regenerates the data part of the Coq model from /repo's sources on every run:
// constants and tables of derive.go, the default Param values, the sentinel error texts,
// the skew bounds and zero-period defaults found in the HOTP/TOTP entry points, the
// knownSuites registry, and the JS export table.  It only reads syntax (go/ast and two
// regular expressions over JS/Go text); all reasoning about the emitted data is Coq.
package main

import (
	"encoding/json"
	"fmt"
	"go/ast"
	"go/parser"
	"go/printer"
	"go/token"
	"os"
	"path/filepath"
	"regexp"
	"sort"
	"strconv"
	"strings"
)

var fset = token.NewFileSet()
var files = map[string]*ast.File{}
var consts = map[string]int64{}

type notFound string

// die: the source text does not have the expected shape.  Inside try() this only means "not readable off the
// syntax" (the item is then taken from the built library's own report, or assumed); elsewhere it ends the run.
func die(f string, a ...any) {
	panic(notFound(fmt.Sprintf(f, a...)))
}

func try[T any](f func() T) (v T, ok bool) {
	defer func() {
		if r := recover(); r != nil {
			if _, is := r.(notFound); is {
				ok = false
				return
			}
			panic(r)
		}
	}()
	return f(), true
}

// what the built library reports about itself (harness dump), if available
var rt map[string]any

// where each emitted item came from: "source" (syntax), "runtime" (the built library), "probe" (behaviour of the built
// library), "assumed" (neither could tell; the specification's value is used and only the correspondence ties it)
var provenance = map[string]string{}

func rtNum(key string) (int64, bool) {
	if rt == nil {
		return 0, false
	}
	f, ok := rt[key].(float64)
	return int64(f), ok
}

func load(repo string) {
	names, _ := filepath.Glob(filepath.Join(repo, "*.go"))
	for _, n := range names {
		if strings.HasSuffix(n, "_test.go") || strings.HasSuffix(n, "_wasm.go") || strings.HasPrefix(filepath.Base(n), "verif_") {
			continue
		}
		f, err := parser.ParseFile(fset, n, nil, 0)
		if err != nil {
			die("parse %s: %v", n, err)
		}
		files[filepath.Base(n)] = f
	}
	// constants (iota blocks with literal or implicit values)
	for _, f := range files {
		for _, d := range f.Decls {
			gd, ok := d.(*ast.GenDecl)
			if !ok || gd.Tok != token.CONST {
				continue
			}
			var last ast.Expr
			for i, s := range gd.Specs {
				vs := s.(*ast.ValueSpec)
				for k, name := range vs.Names {
					var e ast.Expr
					if len(vs.Values) > k {
						e = vs.Values[k]
						last = e
					} else {
						e = last
					}
					if v, ok := evalIota(e, int64(i)); ok {
						consts[name.Name] = v
					}
				}
			}
		}
	}
}

func evalIota(e ast.Expr, iota int64) (int64, bool) {
	switch x := e.(type) {
	case *ast.BasicLit:
		if x.Kind == token.INT || x.Kind == token.CHAR {
			if x.Kind == token.CHAR {
				r, _, _, err := strconv.UnquoteChar(x.Value[1:len(x.Value)-1], '\'')
				return int64(r), err == nil
			}
			v, err := strconv.ParseInt(x.Value, 0, 64)
			if err != nil {
				u, err2 := strconv.ParseUint(x.Value, 0, 64)
				return int64(u), err2 == nil
			}
			return v, true
		}
	case *ast.Ident:
		if x.Name == "iota" {
			return iota, true
		}
		if v, ok := consts[x.Name]; ok {
			return v, true
		}
		if x.Name == "true" {
			return 1, true
		}
		if x.Name == "false" {
			return 0, true
		}
	case *ast.CallExpr: // conversions like Digits(6)
		if len(x.Args) == 1 {
			return evalIota(x.Args[0], iota)
		}
	case *ast.ParenExpr:
		return evalIota(x.X, iota)
	case *ast.UnaryExpr:
		if v, ok := evalIota(x.X, iota); ok && x.Op == token.SUB {
			return -v, true
		}
	}
	return 0, false
}

func eval(e ast.Expr) int64 {
	v, ok := evalIota(e, 0)
	if !ok {
		die("cannot evaluate %s", show(e))
	}
	return v
}

func show(n any) string {
	var sb strings.Builder
	printer.Fprint(&sb, fset, n)
	return sb.String()
}

func findVar(name string) ast.Expr {
	for _, f := range files {
		for _, d := range f.Decls {
			gd, ok := d.(*ast.GenDecl)
			if !ok || gd.Tok != token.VAR {
				continue
			}
			for _, s := range gd.Specs {
				vs := s.(*ast.ValueSpec)
				for k, n := range vs.Names {
					if n.Name == name && len(vs.Values) > k {
						return vs.Values[k]
					}
				}
			}
		}
	}
	die("variable %s not found", name)
	return nil
}

func findFunc(name string) *ast.FuncDecl {
	for _, f := range files {
		for _, d := range f.Decls {
			if fd, ok := d.(*ast.FuncDecl); ok && fd.Name.Name == name && fd.Recv == nil {
				return fd
			}
		}
	}
	die("function %s not found", name)
	return nil
}

func coqBytes(s string) string {
	parts := make([]string, len(s))
	for i := 0; i < len(s); i++ {
		parts[i] = strconv.Itoa(int(s[i]))
	}
	return "[" + strings.Join(parts, "; ") + "]"
}

func compositeOf(e ast.Expr) *ast.CompositeLit {
	if u, ok := e.(*ast.UnaryExpr); ok && u.Op == token.AND {
		e = u.X
	}
	c, ok := e.(*ast.CompositeLit)
	if !ok {
		die("expected composite literal, got %s", show(e))
	}
	return c
}

func fieldsOf(c *ast.CompositeLit) map[string]ast.Expr {
	m := map[string]ast.Expr{}
	for _, el := range c.Elts {
		kv, ok := el.(*ast.KeyValueExpr)
		if !ok {
			die("expected key: value in %s", show(c))
		}
		m[show(kv.Key)] = kv.Value
	}
	return m
}

func fieldInt(m map[string]ast.Expr, k string) int64 {
	if e, ok := m[k]; ok {
		return eval(e)
	}
	return 0
}

// skewBound finds `if <..>.Skew > N { return false, ErrInvalidSkew }` at top level of fn.
func skewBound(fn string) string {
	fd := findFunc(fn)
	for _, st := range fd.Body.List {
		is, ok := st.(*ast.IfStmt)
		if !ok {
			continue
		}
		be, ok := is.Cond.(*ast.BinaryExpr)
		if !ok || be.Op != token.GTR || !strings.HasSuffix(strings.ToLower(show(be.X)), "skew") {
			continue
		}
		if len(is.Body.List) == 1 {
			if rs, ok := is.Body.List[0].(*ast.ReturnStmt); ok && len(rs.Results) == 2 && show(rs.Results[0]) == "false" && show(rs.Results[1]) == "ErrInvalidSkew" {
				return fmt.Sprintf("Some %d", eval(be.Y))
			}
		}
	}
	return "None"
}

// zeroPeriod finds `if <..>period == 0 { <..> = N }` at top level of fn.
func zeroPeriod(fn string) string {
	fd := findFunc(fn)
	for _, st := range fd.Body.List {
		is, ok := st.(*ast.IfStmt)
		if !ok {
			continue
		}
		be, ok := is.Cond.(*ast.BinaryExpr)
		if !ok || be.Op != token.EQL || !strings.HasSuffix(strings.ToLower(show(be.X)), "period") || show(be.Y) != "0" {
			continue
		}
		if len(is.Body.List) == 1 {
			if as, ok := is.Body.List[0].(*ast.AssignStmt); ok && len(as.Rhs) == 1 && show(as.Lhs[0]) == show(be.X) {
				return fmt.Sprintf("Some %d", eval(as.Rhs[0]))
			}
		}
	}
	return "None"
}

func writeIfChanged(path, content string) {
	old, err := os.ReadFile(path)
	if err == nil && string(old) == content {
		return
	}
	if err := os.WriteFile(path+".tmp", []byte(content), 0o644); err != nil {
		die("%v", err)
	}
	os.Rename(path+".tmp", path)
}

func main() {
	if len(os.Args) != 3 && len(os.Args) != 4 {
		fmt.Fprintln(os.Stderr, "usage: gen_tables <repo> <outdir> [runtime-dump.json]")
		os.Exit(2)
	}
	repo, out := os.Args[1], os.Args[2]
	if _, ok := try(func() int { load(repo); return 0 }); !ok {
		fmt.Fprintln(os.Stderr, "gen_tables: the Go sources do not parse")
		os.Exit(2)
	}
	if len(os.Args) == 4 {
		if data, err := os.ReadFile(os.Args[3]); err == nil {
			if json.Unmarshal(data, &rt) != nil {
				rt = nil
			}
		}
	}

	// ---- Tables.v
	var b strings.Builder
	b.WriteString("(* GENERATED from /repo by /verif/tools/gen_tables — do not edit. *)\n")
	b.WriteString("From Coq Require Import List NArith ZArith. Import ListNotations. Open Scope N_scope.\n")
	// the modulus table: as the built library holds it, else as written in the source, else the specification's
	var ms []string
	if l, ok := rt["mod10"].([]any); ok && rt != nil {
		for _, x := range l {
			ms = append(ms, strconv.FormatUint(uint64(x.(float64)), 10))
		}
		provenance["mod10"] = "runtime"
	} else if l, ok := try(func() []string {
		var o []string
		for _, e := range compositeOf(findVar("mod10")).Elts {
			bl, ok := e.(*ast.BasicLit)
			if !ok {
				die("mod10 element %s", show(e))
			}
			u, err := strconv.ParseUint(bl.Value, 0, 64)
			if err != nil {
				die("mod10 element %s", bl.Value)
			}
			o = append(o, strconv.FormatUint(u, 10))
		}
		return o
	}); ok {
		ms, provenance["mod10"] = l, "source"
	} else {
		ms = []string{"0", "10", "100", "1000", "10000", "100000", "1000000", "10000000", "100000000", "1000000000", "10000000000"}
		provenance["mod10"] = "assumed"
	}
	fmt.Fprintf(&b, "Definition mod10 : list N := [%s].\n", strings.Join(ms, "; "))
	for _, c := range [][3]string{{"maskOffset", "mask_offset", "15"}, {"mask31BitInt", "mask31", "2147483647"}, {"separator", "separator", "0"}} {
		if v, ok := consts[c[0]]; ok {
			fmt.Fprintf(&b, "Definition %s : N := %d.\n", c[1], v)
			provenance[c[1]] = "source"
		} else {
			fmt.Fprintf(&b, "Definition %s : N := %s.\n", c[1], c[2])
			provenance[c[1]] = "assumed"
		}
	}
	if n, ok := try(func() int { return len(compositeOf(findVar("hmacPools")).Elts) }); ok {
		fmt.Fprintf(&b, "Definition n_hmac_pools : N := %d.\n", n)
		provenance["n_hmac_pools"] = "source"
	} else if n, ok := rtNum("n_hashes"); ok {
		fmt.Fprintf(&b, "Definition n_hmac_pools : N := %d.\n", n)
		provenance["n_hmac_pools"] = "probe"
	} else {
		b.WriteString("Definition n_hmac_pools : N := 3.\n")
		provenance["n_hmac_pools"] = "assumed"
	}
	b.WriteString("(* Param{Digits, Period, Skew, Algorithm} *)\n")
	for _, d := range [][2]string{{"DefaultHOTPParam", "default_hotp"}, {"DefaultTOTPParam", "default_totp"}} {
		if l, ok := rt[d[1]].([]any); ok && rt != nil && len(l) == 4 {
			fmt.Fprintf(&b, "Definition %s : N * N * N * N := (%d, %d, %d, %d).\n", d[1],
				uint64(l[0].(float64)), uint64(l[1].(float64)), uint64(l[2].(float64)), uint64(l[3].(float64)))
			provenance[d[1]] = "runtime"
			continue
		}
		m, ok := try(func() map[string]ast.Expr { return fieldsOf(compositeOf(findVar(d[0]))) })
		v, ok2 := try(func() [4]int64 {
			return [4]int64{fieldInt(m, "Digits"), fieldInt(m, "Period"), fieldInt(m, "Skew"), fieldInt(m, "Algorithm")}
		})
		if !ok || !ok2 {
			fmt.Fprintf(os.Stderr, "gen_tables: %s is neither readable from the source nor reported by the library\n", d[0])
			os.Exit(2)
		}
		fmt.Fprintf(&b, "Definition %s : N * N * N * N := (%d, %d, %d, %d).\n", d[1], v[0], v[1], v[2], v[3])
		provenance[d[1]] = "source"
	}
	// facts that are code, not data: read off the entry point when it has the expected shape, else probed
	behaviour := func(name, fromSource string) {
		val := fromSource
		provenance[name] = "source"
		if val == "None" {
			if n, ok := rtNum(name); ok {
				val = fmt.Sprintf("Some %d", n)
				provenance[name] = "probe"
			}
		}
		fmt.Fprintf(&b, "Definition %s : option N := %s.\n", name, val)
	}
	soft := func(f func() string) string {
		v, ok := try(f)
		if !ok {
			return "None"
		}
		return v
	}
	behaviour("hotp_max_skew", soft(func() string { return skewBound("ValidateHOTP") }))
	behaviour("totp_max_skew", soft(func() string { return skewBound("ValidateTOTP") }))
	behaviour("totp_gen_zero_period", soft(func() string { return zeroPeriod("GenerateTOTP") }))
	behaviour("totp_val_zero_period", soft(func() string { return zeroPeriod("ValidateTOTP") }))
	behaviour("totp_url_zero_period", soft(func() string { return zeroPeriod("GenerateTOTPURL") }))
	rc, _ := rt["consts"].(map[string]any)
	for _, c := range []string{"SixDigits", "EightDigits", "NineDigits", "TenDigits", "SHA1", "SHA256", "SHA512",
		"ChallengeNone", "ChallengeNumeric08", "ChallengeNumeric10", "ChallengeAlpha08", "ChallengeAlpha10", "ChallengeHex08", "ChallengeHex10",
		"PasswordNone", "PasswordSHA1", "PasswordSHA256", "PasswordSHA512"} {
		if f, ok := rc[c].(float64); ok {
			fmt.Fprintf(&b, "Definition c_%s : Z := %d.\n", c, int64(f))
			continue
		}
		v, ok := consts[c]
		if !ok {
			fmt.Fprintf(os.Stderr, "gen_tables: constant %s not found\n", c)
			os.Exit(2)
		}
		fmt.Fprintf(&b, "Definition c_%s : Z := %d.\n", c, v)
	}
	writeIfChanged(filepath.Join(out, "Tables.v"), b.String())

	// ---- ErrTexts.v
	b.Reset()
	b.WriteString("(* GENERATED from /repo/errs.go by /verif/tools/gen_tables — do not edit. *)\n")
	b.WriteString("From Coq Require Import List NArith. Import ListNotations. Open Scope N_scope.\n")
	re_, _ := rt["errors"].(map[string]any)
	for _, name := range []string{"ErrUnsupportedAlgorithm", "ErrInvalidCodeLength", "ErrInvalidCode", "ErrIssuerRequired",
		"ErrAccountNameRequired", "ErrSecretRequired", "ErrInvalidSkew", "ErrInvalidRawSuite"} {
		if t, ok := re_[name].(string); ok {
			fmt.Fprintf(&b, "Definition txt_%s : list N := %s.\n", name, coqBytes(t))
			continue
		}
		t, ok := try(func() string {
			ce, ok := findVar(name).(*ast.CallExpr)
			if !ok || show(ce.Fun) != "errors.New" || len(ce.Args) != 1 {
				die("%s is not errors.New(\"...\")", name)
			}
			bl, ok := ce.Args[0].(*ast.BasicLit)
			if !ok {
				die("%s text is not a literal", name)
			}
			s, err := strconv.Unquote(bl.Value)
			if err != nil {
				die("%v", err)
			}
			return s
		})
		if !ok {
			fmt.Fprintf(os.Stderr, "gen_tables: the text of %s is neither readable from the source nor reported by the library\n", name)
			os.Exit(2)
		}
		fmt.Fprintf(&b, "Definition txt_%s : list N := %s.\n", name, coqBytes(t))
	}
	writeIfChanged(filepath.Join(out, "ErrTexts.v"), b.String())

	// ---- Registry.v
	b.Reset()
	b.WriteString("(* GENERATED from /repo/suite_rfc6287.go (knownSuites) by /verif/tools/gen_tables — do not edit. *)\n")
	b.WriteString("From Coq Require Import List NArith ZArith. Import ListNotations.\n")
	b.WriteString("(* name, (Hash, Digits, Challenge, C, Q, P, S, T, PasswordHash, TimeStep, Raw) *)\n")
	type ent struct{ name, line string }
	var ents []ent
	line := func(name string, hash, digits, chal int64, c, q, p, s_, t bool, pw, step int64, raw string) string {
		return fmt.Sprintf("  (%s%%N, (%d%%N, %d%%Z, %d%%Z, %t, %t, %t, %t, %t, %d%%Z, %d%%Z, %s%%N))",
			coqBytes(name), hash, digits, chal, c, q, p, s_, t, pw, step, coqBytes(raw))
	}
	if reg, ok := rt["registry"].(map[string]any); ok && rt != nil {
		for name, v := range reg {
			l := v.([]any)
			n := func(i int) int64 { return int64(l[i].(float64)) }
			bo := func(i int) bool { return l[i].(bool) }
			ents = append(ents, ent{name, line(name, n(0), n(1), n(2), bo(3), bo(4), bo(5), bo(6), bo(7), n(8), n(9), l[10].(string))})
		}
		provenance["registry"] = "runtime"
	} else {
		l, ok := try(func() []ent {
			var o []ent
			for _, el := range compositeOf(findVar("knownSuites")).Elts {
				kv := el.(*ast.KeyValueExpr)
				name, err := strconv.Unquote(show(kv.Key))
				if err != nil {
					die("registry key %s", show(kv.Key))
				}
				m := fieldsOf(compositeOf(kv.Value))
				for k := range m {
					switch k {
					case "Hash", "Digits", "Challenge", "IncludeCounter", "IncludeChallenge", "IncludePassword", "IncludeSession", "IncludeTimestamp", "PasswordHash", "TimeStep", "Raw":
					default:
						die("unknown SuiteConfig field %s", k)
					}
				}
				bo := func(k string) bool { return fieldInt(m, k) != 0 }
				raw := ""
				if e, ok := m["Raw"]; ok {
					raw, _ = strconv.Unquote(show(e))
				}
				o = append(o, ent{name, line(name, fieldInt(m, "Hash"), fieldInt(m, "Digits"), fieldInt(m, "Challenge"),
					bo("IncludeCounter"), bo("IncludeChallenge"), bo("IncludePassword"), bo("IncludeSession"), bo("IncludeTimestamp"),
					fieldInt(m, "PasswordHash"), fieldInt(m, "TimeStep"), raw)})
			}
			return o
		})
		if !ok {
			fmt.Fprintln(os.Stderr, "gen_tables: the suite registry is neither readable from the source nor reported by the library")
			os.Exit(2)
		}
		ents, provenance["registry"] = l, "source"
	}
	sort.Slice(ents, func(i, j int) bool { return ents[i].name < ents[j].name })
	b.WriteString("Definition known_suites_raw : list (list N * (N * Z * Z * bool * bool * bool * bool * bool * Z * Z * list N)) := [\n")
	for i, e := range ents {
		b.WriteString(e.line)
		if i+1 < len(ents) {
			b.WriteString(";")
		}
		b.WriteString("\n")
	}
	b.WriteString("].\n")
	writeIfChanged(filepath.Join(out, "Registry.v"), b.String())
	// ---- JsExports.v
	b.Reset()
	b.WriteString("(* GENERATED from /repo/otp-js/src/index.js and /repo/wasm/main.go by /verif/tools/gen_tables — do not edit. *)\n")
	b.WriteString("From Coq Require Import List NArith. Import ListNotations. Open Scope N_scope.\n")
	js, err := os.ReadFile(filepath.Join(repo, "otp-js/src/index.js"))
	if err != nil {
		die("%v", err)
	}
	re := regexp.MustCompile(`(?m)^\s*([A-Za-z_][A-Za-z0-9_]*)\s*:\s*globalThis\.([A-Za-z_][A-Za-z0-9_]*)\s*,?\s*$`)
	var ex []string
	for _, m := range re.FindAllStringSubmatch(string(js), -1) {
		ex = append(ex, fmt.Sprintf("(%s, %s)", coqBytes(m[1]), coqBytes(m[2])))
	}
	provenance["js_exports"] = "source"
	if len(ex) == 0 { // the entry module does not have the expected shape: what the loaded module shows (tools/wasm/runner.js)
		provenance["js_exports"] = "none"
		if l, ok := rt["js_exports"].([]any); ok && rt != nil {
			for _, x := range l {
				p := x.([]any)
				ex = append(ex, fmt.Sprintf("(%s, %s)", coqBytes(p[0].(string)), coqBytes(p[1].(string))))
			}
			provenance["js_exports"] = "runtime"
		}
	}
	fmt.Fprintf(&b, "(* exported name, global it is bound to *)\nDefinition js_exports : list (list N * list N) := [%s].\n", strings.Join(ex, ";\n  "))
	wm, err := os.ReadFile(filepath.Join(repo, "wasm/main.go"))
	if err != nil {
		die("%v", err)
	}
	// js.Global().Set("name", js.FuncOf(...)): the registered names.  Which Go function stands behind a name is not
	// read off the text (wrappers and renames make that unreliable, and the property does not speak of Go identifiers):
	// it is the correspondence that calls every global by name and compares the answers.
	re2 := regexp.MustCompile(`js\.Global\(\)\.Set\("([^"]+)",\s*js\.FuncOf\(`)
	var gl []string
	for _, m := range re2.FindAllStringSubmatch(string(wm), -1) {
		gl = append(gl, fmt.Sprintf("(%s, %s)", coqBytes(m[1]), coqBytes(m[1])))
	}
	provenance["js_globals"] = "source"
	if len(gl) == 0 {
		provenance["js_globals"] = "none"
		if l, ok := rt["js_globals"].([]any); ok && rt != nil {
			for _, x := range l {
				gl = append(gl, fmt.Sprintf("(%s, %s)", coqBytes(x.(string)), coqBytes(x.(string))))
			}
			provenance["js_globals"] = "runtime"
		}
	}
	fmt.Fprintf(&b, "(* registered global name (twice: kept as pairs for the proofs that read them) *)\nDefinition js_globals : list (list N * list N) := [%s].\n", strings.Join(gl, ";\n  "))
	writeIfChanged(filepath.Join(out, "JsExports.v"), b.String())
	if pj, err := json.MarshalIndent(provenance, "", " "); err == nil {
		writeIfChanged(filepath.Join(out, "provenance.json"), string(pj)+"\n")
	}
}
