(** C01 — HOTP codes equal the RFC 4226 value for every secret, counter, length and hash. *)
From Coq Require Import String.
From OtpV Require Import Prelude Sha Decoder Derive Otp Rfc4226 DeriveProofs OtpProofs Errors.
Open Scope N_scope.

(** the code returned is the RFC 4226 value (Spec/Rfc4226.v) under the decoded secret *)
Theorem C01_value : forall secret key c d per sk a,
  decode_secret secret = Ok key -> 1 <= d <= 10 ->
  generate_hotp secret c (Some (mkParam d per sk (N_of_alg a))) = Ok (hotp_value hmac a key c (N.to_nat d)).
Proof. exact (generate_hotp_value hmac hmac_length hmac_wf). Qed.
Print Assumptions C01_value.

(** ... which is exactly [d] decimal characters whose value is DT(HMAC) mod 10^d *)
Theorem C01_shape : forall secret key c d per sk a,
  decode_secret secret = Ok key -> 1 <= d <= 10 ->
  exists s, generate_hotp secret c (Some (mkParam d per sk (N_of_alg a))) = Ok s /\
            is_code (N.to_nat d) (dt31 (hmac a key (be64 c)) mod 10 ^ N.of_nat (N.to_nat d)) s.
Proof. exact (generate_hotp_code_shape hmac hmac_length hmac_wf). Qed.
Print Assumptions C01_shape.

(** a code is determined by its length and value: the relational spec has one solution *)
Theorem C01_code_unique : forall d n s s', is_code d n s -> is_code d n s' -> s = s'.
Proof. exact is_code_unique. Qed.
Print Assumptions C01_code_unique.

(** an unsupported hash or code length is answered with an error, never with a code *)
Theorem C01_unsupported : forall secret key c d per sk algo,
  decode_secret secret = Ok key -> d < 256 -> algo < 256 ->
  (d = 0 \/ 10 < d \/ 3 <= algo) ->
  exists e, generate_hotp secret c (Some (mkParam d per sk algo)) = Err e.
Proof. exact (generate_hotp_unsupported hmac hmac_length hmac_wf). Qed.
Print Assumptions C01_unsupported.

Theorem C01_bad_secret : forall secret e c p,
  decode_secret secret = Err e -> generate_hotp secret c p = Err e.
Proof. exact (generate_hotp_bad_secret hmac hmac_length hmac_wf). Qed.
Print Assumptions C01_bad_secret.

(** absent parameters mean 6 digits, SHA-1 *)
Theorem C01_nil_param : forall secret c,
  generate_hotp secret c None = generate_hotp secret c (Some (mkParam 6 0 2 0)).
Proof. exact (generate_hotp_nil hmac hmac_length hmac_wf). Qed.
Print Assumptions C01_nil_param.

(** the modulus table regenerated from derive.go holds the powers of ten *)
Theorem C01_mod10_table : forall d, (1 <= d <= 10)%nat -> nth_error Tables.mod10 d = Some (10 ^ N.of_nat d).
Proof. exact mod10_is_pow10. Qed.
Print Assumptions C01_mod10_table.

(** non-vacuity: RFC 4226 appendix D, secret "12345678901234567890", counters 0 and 1, and a 10-digit code *)
Example C01_rfc_vector :
  generate_hotp (s2b "GEZDGNBVGY3TQOJQGEZDGNBVGY3TQOJQ"%string) 0 None = Ok (s2b "755224"%string) /\
  generate_hotp (s2b "GEZDGNBVGY3TQOJQGEZDGNBVGY3TQOJQ"%string) 1 None = Ok (s2b "287082"%string) /\
  generate_hotp (s2b "GEZDGNBVGY3TQOJQGEZDGNBVGY3TQOJQ"%string) 0 (Some (mkParam 10 0 0 0)) = Ok (s2b "1284755224"%string).
Proof. vm_compute. repeat split. Qed.
