(** Known-answer tests (FIPS 180-4 examples, RFC 2202 / RFC 4231 HMAC vectors), by [vm_compute]. *)
From OtpV Require Import Prelude Sha.
Open Scope N_scope.
Definition abc : bytes := [97;98;99].
Definition hex_of (l : bytes) : N := fold_left (fun acc b => acc * 256 + b) l 0.
Example sha1_abc : hex_of (sha1 abc) = 0xa9993e364706816aba3e25717850c26c9cd0d89d.
Proof. vm_compute. reflexivity. Qed.
Example sha256_abc : hex_of (sha256 abc) = 0xba7816bf8f01cfea414140de5dae2223b00361a396177a9cb410ff61f20015ad.
Proof. vm_compute. reflexivity. Qed.
Example sha512_abc : hex_of (sha512 abc) = 0xddaf35a193617abacc417349ae20413112e6fa4e89a97ea20a9eeee64b55d39a2192992a274fc1a836ba3c23a3feebbd454d4423643ce80e2a9ac94fa54ca49f.
Proof. vm_compute. reflexivity. Qed.
Example sha256_empty : hex_of (sha256 []) = 0xe3b0c44298fc1c149afbf4c8996fb92427ae41e4649b934ca495991b7852b855.
Proof. vm_compute. reflexivity. Qed.
(* RFC 2202 test 1: key = 20 x 0x0b, data "Hi There" *)
Example hmac_sha1_rfc2202_1 :
  hex_of (hmac SHA1 (repeat 11 20) [72;105;32;84;104;101;114;101]) = 0xb617318655057264e28bc0b6fb378c8ef146be00.
Proof. vm_compute. reflexivity. Qed.
(* RFC 4231 test 1 *)
Example hmac_sha256_rfc4231_1 :
  hex_of (hmac SHA256 (repeat 11 20) [72;105;32;84;104;101;114;101]) = 0xb0344c61d8db38535ca8afceaf0bf12b881dc200c9833da726e9376c2e32cff7.
Proof. vm_compute. reflexivity. Qed.
Example hmac_sha512_rfc4231_1 :
  hex_of (hmac SHA512 (repeat 11 20) [72;105;32;84;104;101;114;101]) = 0x87aa7cdea5ef619d4ff0b4241a1d6cb02379f4e2ce4ec2787ad0b30545e17cdedaa833b7d6b8a702038b274eaea3f4e4be9d914eeb61f1702e696c203a126854.
Proof. vm_compute. reflexivity. Qed.
(* RFC 4231 test 6: 131-byte key (longer than both block sizes) *)
Example hmac_sha256_rfc4231_6 :
  hex_of (hmac SHA256 (repeat 170 131) [84;101;115;116;32;85;115;105;110;103;32;76;97;114;103;101;114;32;84;104;97;110;32;66;108;111;99;107;45;83;105;122;101;32;75;101;121;32;45;32;72;97;115;104;32;75;101;121;32;70;105;114;115;116])
  = 0x60e431591ee0b67f0d8a26aacbf5b77f8e0bc6213728c5140546040f0ee37f54.
Proof. vm_compute. reflexivity. Qed.
