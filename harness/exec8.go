package main

func run8(f []string) (string, bool) { return "", false }
