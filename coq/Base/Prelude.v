(** Base definitions shared by the whole development: bytes, byte strings,
    outcomes (value / error / panic), machine-integer wraps. *)
From Coq Require Export List NArith ZArith Lia Bool.
Export ListNotations.
Open Scope N_scope.

Definition byte := N.
Definition bytes := list N.

(** well-formed byte strings: every element below 256 *)
Definition wfb (l : bytes) : Prop := Forall (fun b => b < 256) l.
Definition wfbb (l : bytes) : bool := forallb (fun b => b <? 256) l.

Lemma wfbb_spec l : wfbb l = true <-> wfb l.
Proof.
  unfold wfbb, wfb. rewrite forallb_forall, Forall_forall.
  split; intros H x Hx; specialize (H x Hx); [apply N.ltb_lt in H|apply N.ltb_lt]; exact H.
Qed.

Lemma wfb_app a b : wfb a -> wfb b -> wfb (a ++ b).
Proof. unfold wfb. intros. apply Forall_app. split; assumption. Qed.

Lemma wfb_app_inv a b : wfb (a ++ b) -> wfb a /\ wfb b.
Proof. unfold wfb. intros H. apply Forall_app in H. exact H. Qed.

Lemma wfb_nil : wfb []. Proof. constructor. Qed.

Lemma wfb_cons x l : x < 256 -> wfb l -> wfb (x :: l).
Proof. intros. constructor; assumption. Qed.

Lemma wfb_firstn n l : wfb l -> wfb (firstn n l).
Proof.
  intros H. rewrite <- (firstn_skipn n l) in H. apply wfb_app_inv in H. apply H.
Qed.

Lemma wfb_skipn n l : wfb l -> wfb (skipn n l).
Proof.
  intros H. rewrite <- (firstn_skipn n l) in H. apply wfb_app_inv in H. apply H.
Qed.

Lemma wfb_repeat x n : x < 256 -> wfb (repeat x n).
Proof. intros H. unfold wfb. apply Forall_forall. intros y Hy. apply repeat_spec in Hy. subst. exact H. Qed.

Lemma wfb_map (A:Type) (f : A -> N) l : (forall x, f x < 256) -> wfb (map f l).
Proof. intros H. unfold wfb. apply Forall_forall. intros y Hy. apply in_map_iff in Hy. destruct Hy as [x [<- _]]. apply H. Qed.

(** ---------- errors and outcomes ---------- *)

(** the library's sentinel errors (errs.go) *)
Inductive sentinel :=
| ErrUnsupportedAlgorithm | ErrInvalidCodeLength | ErrInvalidCode
| ErrIssuerRequired | ErrAccountNameRequired | ErrSecretRequired
| ErrInvalidSkew | ErrInvalidRawSuite.

(** structured errors.  [EFmt tag nums strs]: an error built by the library with
    fmt.Errorf from template number [tag], integer arguments and string arguments.
    [EBase32 off]: base32.CorruptInputError(off).  [EStd tag]: an error produced by the
    standard library whose text is not modelled (only its existence). *)
Inductive err :=
| ESent (s : sentinel)
| EFmt (tag : N) (nums : list Z) (strs : list bytes)
| EBase32 (off : Z)
| EStd (tag : N) (strs : list bytes).

Inductive outcome (A : Type) :=
| Ok (a : A)
| Err (e : err)
| Panic.
Arguments Ok {A} a.
Arguments Err {A} e.
Arguments Panic {A}.

Definition obind {A B} (o : outcome A) (f : A -> outcome B) : outcome B :=
  match o with Ok a => f a | Err e => Err e | Panic => Panic end.

Definition is_ok {A} (o : outcome A) : bool := match o with Ok _ => true | _ => false end.
Definition is_err {A} (o : outcome A) : bool := match o with Err _ => true | _ => false end.
Definition is_panic {A} (o : outcome A) : bool := match o with Panic => true | _ => false end.

(** ---------- machine integers ---------- *)

Definition two64 : N := 18446744073709551616.
Definition two63 : N := 9223372036854775808.
Definition two32 : N := 4294967296.
Definition two31 : N := 2147483648.

Definition wrap64 (x : N) : N := x mod two64.
Definition wrap32 (x : N) : N := x mod two32.
Definition wrap8 (x : N) : N := x mod 256.

(** uint64 subtraction with wrap *)
Definition sub64 (x y : N) : N := (x + two64 - (y mod two64)) mod two64.

(** int64(x) for a uint64 x: two's complement reinterpretation *)
Definition to_int64 (x : N) : Z :=
  if x <? two63 then Z.of_N x else (Z.of_N x - Z.of_N two64)%Z.
(** uint64(z) for an int64 / int z *)
Definition of_int64 (z : Z) : N := Z.to_N (z mod (Z.of_N two64))%Z.
(** wrap of a mathematical integer into int64 *)
Definition wrap_int64 (z : Z) : Z := to_int64 (of_int64 z).

(** list helpers *)
Fixpoint upd {A} (i : nat) (v : A) (l : list A) : list A :=
  match l, i with
  | [], _ => []
  | _ :: t, O => v :: t
  | h :: t, S i' => h :: upd i' v t
  end.

Lemma upd_length {A} i (v:A) l : length (upd i v l) = length l.
Proof. revert i; induction l as [|h t IH]; intros [|i]; simpl; auto. Qed.

Definition zlen {A} (l : list A) : Z := Z.of_nat (length l).

(** linear-time list reversal (List.rev is quadratic; strings of 64 KiB are in scope) *)
Definition frev {A} (l : list A) : list A := rev_append l [].
Lemma frev_rev {A} (l : list A) : frev l = rev l.
Proof. unfold frev. rewrite rev_append_rev. apply app_nil_r. Qed.

(** ASCII helpers *)
Definition c0 : N := 48.   (* '0' *)
Definition ceq : N := 61.  (* '=' *)
