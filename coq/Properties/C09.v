(** C09 — submitted codes are compared with the expected code in constant time.
    A timing claim is not a theorem about a model of values; the property itself reduces it to a
    statement about data flow — "the expected code, and anything derived from the HMAC output, is
    only ever compared with caller-supplied data by a constant-time equality" — and that is what is
    decided here, over the SSA form of the code that gen_ssa regenerates on every run
    (Generated/SsaNative.v: the library and the REST module, native build; Generated/SsaWasm.v:
    the library and the binding, js/wasm build).  Model/Flow.v defines the leak sites, computes
    the tainted sets, checks them as a certificate and proves the certificate sound. *)
From Coq Require Import List String PArith.
From OtpV Require Import Flow Mem SsaNative SsaWasm.

(** what the check found, for the report (empty lists on a tree where the property holds) *)
Definition C09_native_sites := Eval vm_compute in site_names SsaNative.facts (search SsaNative.facts).
Definition C09_wasm_sites := Eval vm_compute in site_names SsaWasm.facts (search SsaWasm.facts).
Print C09_native_sites.
Print C09_wasm_sites.

Theorem C09_native : no_leak SsaNative.facts = true.
Proof. vm_compute. reflexivity. Qed.
Print Assumptions C09_native.

Theorem C09_wasm : no_leak SsaWasm.facts = true.
Proof. vm_compute. reflexivity. Qed.
Print Assumptions C09_wasm.

(** what the verdict means: along *every* flow path of the fact base, no comparison meets an
    HMAC-derived operand with a caller-derived one, and no branch on an HMAC-derived condition
    controls a comparison of caller-derived data *)
Theorem C09_meaning : forall F, no_leak F = true ->
  (forall i args a b, In (i, args) (f_cmps F) -> In a args -> In b args -> hmac_derived F a -> caller_derived F b -> False) /\
  (forall c i args b, In (c, i) (f_controlled F) -> fst (kind_of F i) = 1%positive -> args_of (f_cmps F) i = args -> In b args ->
                      hmac_derived F c -> caller_derived F b -> False).
Proof. exact no_leak_sound. Qed.
Print Assumptions C09_meaning.

(** the fact bases are not empty: HMAC outputs and caller texts exist and reach many values (the bounds are far below
    what the current tree gives, so that merging the two Sum call sites into one helper, say, does not trip them) *)
Example C09_nonvacuous :
  (1 <= List.length (f_src_hmac SsaNative.facts) /\ 1 <= List.length (f_src_hmac SsaWasm.facts) /\
   30 <= PS.cardinal (c_hmac (search SsaNative.facts)) /\ 200 <= PS.cardinal (c_caller (search SsaNative.facts)))%nat.
Proof. vm_compute. repeat split; repeat constructor. Qed.

(** nor can an expected code (or a code once accepted as equal to it) wait in memory for a later request to be compared
    with: outside package initialisation nothing writes memory reachable from a package-level variable *)
Theorem C09_stateless : Flow.mem_ok SsaNative.mem_facts = true /\ Flow.mem_ok SsaWasm.mem_facts = true.
Proof. split; vm_compute; reflexivity. Qed.
Print Assumptions C09_stateless.
