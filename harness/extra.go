package main

import (
	"bufio"
	"crypto/hmac"
	"crypto/sha1"
	"crypto/sha256"
	"crypto/sha512"
	"encoding/binary"
	"fmt"
	"hash"
	"runtime"
	"sort"
	"strconv"
	"sync"
)

// extraCommand: `extremes <limit>` searches, independently of the library (plain crypto/hmac), counters whose RFC 4226
// value for the RFC key has an extreme shape — a code that is all zeros but its last digit, or exactly a power of ten —
// for every hash and every code length 5..10.  The result (regression corpus "extreme outputs") is committed; it only
// depends on RFC 4226, not on the implementation.  Formatting slips that bite for one value in 10^5..10^10 cannot be
// found by sampling secrets and counters, but these inputs hit them.
func extraCommand(args []string, w *bufio.Writer) bool {
	if len(args) < 1 || args[0] != "extremes" {
		return false
	}
	limit := uint64(300000000)
	if len(args) > 1 {
		limit, _ = strconv.ParseUint(args[1], 10, 64)
	}
	key := []byte("12345678901234567890")
	news := []func() hash.Hash{sha1.New, sha256.New, sha512.New}
	type hit struct {
		alg, digits int
		kind       string
		counter    uint64
	}
	var mu sync.Mutex
	best := map[string]hit{}
	record := func(h hit) {
		k := fmt.Sprintf("%d/%d/%s", h.alg, h.digits, h.kind)
		mu.Lock()
		if old, ok := best[k]; !ok || h.counter < old.counter {
			best[k] = h
		}
		mu.Unlock()
	}
	pow := []uint64{1, 10, 100, 1000, 10000, 100000, 1000000, 10000000, 100000000, 1000000000, 10000000000}
	workers := runtime.NumCPU()
	for alg := 0; alg < 3; alg++ {
		var wg sync.WaitGroup
		for wk := 0; wk < workers; wk++ {
			wg.Add(1)
			go func(wk int) {
				defer wg.Done()
				mac := hmac.New(news[alg], key)
				var buf [8]byte
				sum := make([]byte, 0, 64)
				for c := uint64(wk); c < limit; c += uint64(workers) {
					binary.BigEndian.PutUint64(buf[:], c)
					mac.Reset()
					mac.Write(buf[:])
					sum = mac.Sum(sum[:0])
					off := sum[len(sum)-1] & 0x0f
					v := uint64(binary.BigEndian.Uint32(sum[off:off+4]) & 0x7fffffff)
					for d := 5; d <= 10; d++ {
						code := v % pow[d]
						if code < 10 {
							record(hit{alg, d, "lt10", c})
						}
						for k := 1; k < d; k++ {
							if code == pow[k] {
								record(hit{alg, d, "pow" + strconv.Itoa(k), c})
							}
						}
					}
				}
			}(wk)
		}
		wg.Wait()
	}
	var hits []hit
	for _, h := range best {
		hits = append(hits, h)
	}
	sort.Slice(hits, func(i, j int) bool {
		a, b := hits[i], hits[j]
		if a.alg != b.alg {
			return a.alg < b.alg
		}
		if a.digits != b.digits {
			return a.digits < b.digits
		}
		return a.kind < b.kind
	})
	for _, h := range hits {
		fmt.Fprintf(w, "%d %d %s %d\n", h.alg, h.digits, h.kind, h.counter)
	}
	return true
}
