(** Model of utils.go (input-encoding helpers) and HexInputToOCRA (otp.go), with the parts
    of strconv / encoding/hex / math/big they call. *)
From OtpV Require Import Prelude Errors Ocra Derive.
Open Scope N_scope.

Definition is_dec_digit (c : N) : bool := (48 <=? c) && (c <=? 57).
Definition dec_val (s : bytes) : N := fold_left (fun acc c => acc * 10 + (c - 48)) s 0.

(** strconv.ParseUint(s, 10, 64): digits only, non-empty, value < 2^64 *)
Definition parse_uint64 (s : bytes) : option N :=
  match s with
  | [] => None
  | _ => if forallb is_dec_digit s then
           let v := dec_val s in if v <? two64 then Some v else None
         else None
  end.

(** strconv.Atoi: optional sign, digits only, non-empty, value in the int64 range *)
Definition atoi (s : bytes) : option Z :=
  let '(neg, ds) := match s with
                    | 45 :: t => (true, t)
                    | 43 :: t => (false, t)
                    | _ => (false, s)
                    end in
  match ds with
  | [] => None
  | _ => if forallb is_dec_digit ds then
           let v := dec_val ds in
           if neg then (if v <=? two63 then Some (- Z.of_N v)%Z else None)
           else (if v <? two63 then Some (Z.of_N v) else None)
         else None
  end.

(** func To8ByteBigEndian(v uint64) []byte — the loop out[i] = byte(v & 0xFF); v >>= 8 *)
Fixpoint be_loop (k : nat) (out : bytes) (v : N) : bytes :=
  match k with
  | O => out
  | S i => be_loop i (upd i (N.land v 255) out) (N.shiftr v 8)
  end.
Definition to8 (v : N) : bytes := be_loop 8 (repeat 0 8) v.

(** ParseDecimalToBigEndian8 and its alias ParseDecimal64BigEndian *)
Definition parse_decimal_be8 (s : bytes) : outcome bytes :=
  match parse_uint64 s with
  | Some v => Ok (to8 v)
  | None => Err (EStd 1 [s])
  end.

(** func LeftPadHex(s string, totalLen int) string — a width below 1 gives the empty string *)
Definition left_pad_hex (s : bytes) (total : Z) : outcome bytes :=
  if (total <=? 0)%Z then Ok []
  else if (total <=? zlen s)%Z then Ok (skipn (length s - Z.to_nat total) s)
  else Ok (repeat 48 (Z.to_nat total - length s) ++ s).

(** encoding/hex *)
Definition hex_digit_val (c : N) : option N :=
  if (48 <=? c) && (c <=? 57) then Some (c - 48)
  else if (97 <=? c) && (c <=? 102) then Some (c - 87)
  else if (65 <=? c) && (c <=? 70) then Some (c - 55)
  else None.
Fixpoint hex_decode (s : bytes) : option bytes :=
  match s with
  | [] => Some []
  | [_] => None                                                  (* odd length (or invalid last char) *)
  | a :: b :: t =>
    match hex_digit_val a, hex_digit_val b, hex_decode t with
    | Some x, Some y, Some r => Some ((x * 16 + y) :: r)
    | _, _, _ => None
    end
  end.

(** func ParseHexTimestamp(ts string) ([]byte, error) *)
Definition parse_hex_timestamp (ts : bytes) : outcome bytes :=
  let padded := repeat 48 (16 - length ts) ++ ts in
  match hex_decode padded with Some b => Ok b | None => Err (EStd 2 []) end.

(** func MustHexPadLeft(hexStr string, size int) []byte — one of the two documented Must* helpers: it panics when the
    padded text is not hexadecimal (and, like LeftPadHex, for a negative width); size*2 is Go int arithmetic *)
Definition must_hex_pad_left (s : bytes) (size : Z) : outcome bytes :=
  match left_pad_hex s (wrap_int64 (size * 2)) with
  | Ok padded => match hex_decode padded with Some b => Ok b | None => Panic end
  | Err e => Err e
  | Panic => Panic
  end.

(** upper-case hexadecimal text of a number (big.Int.Text(16) + strings.ToUpper), "0" for 0 *)
Definition hex_upper (v : N) : N := if v <? 10 then 48 + v else 55 + v.
Fixpoint hex_text_fuel (fuel : nat) (n : N) (acc : bytes) : bytes :=
  match fuel with
  | O => acc
  | S f => let acc' := hex_upper (n mod 16) :: acc in
           if n / 16 =? 0 then acc' else hex_text_fuel f (n / 16) acc'
  end.
Definition hex_text (n : N) : bytes := hex_text_fuel (S (N.to_nat (N.log2 n))) n [].

(** func ParseDecimalChallengeRFC6287(s string) ([]byte, error)
    big.Int.SetString(s, 10) accepts [+-]?[0-9]+ ; a negative value prints with '-' and then
    fails hex decoding; more than 256 hex digits are not padded (and fail if odd) *)
Definition parse_decimal_challenge (s : bytes) : outcome bytes :=
  let '(neg, ds) := match s with
                    | 45 :: t => (true, t)
                    | 43 :: t => (false, t)
                    | _ => (false, s)
                    end in
  match ds with
  | [] => Err (EFmt T_invalid_decimal [] [s])
  | _ =>
    if forallb is_dec_digit ds then
      let v := dec_val ds in
      if neg && negb (v =? 0) then Err (EStd 2 [])               (* "-" is not a hex digit *)
      else
        let hx := hex_text v in
        let hx := hx ++ repeat 48 (256 - length hx) in
        match hex_decode hx with Some b => Ok b | None => Err (EStd 2 []) end
    else Err (EFmt T_invalid_decimal [] [s])
  end.

(** func HexInputToOCRA(counter, challenge, password, sessionInfo, timestamp string) (OCRAInput, error) *)
Definition hex_field (tag : N) (s : bytes) : outcome bytes :=
  match s with
  | [] => Ok []
  | _ => match hex_decode s with Some b => Ok b | None => Err (EStd tag []) end
  end.
Definition hex_input_to_ocra (c q p s t : bytes) : outcome ocra_input :=
  obind (hex_field T_hex_counter c) (fun c' =>
  obind (hex_field T_hex_challenge q) (fun q' =>
  obind (hex_field T_hex_password p) (fun p' =>
  obind (hex_field T_hex_session s) (fun s' =>
  obind (hex_field T_hex_timestamp t) (fun t' => Ok (mkInput c' q' p' s' t')))))).
