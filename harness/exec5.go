package main

func run5(f []string) (string, bool) { return "", false }
