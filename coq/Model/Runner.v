(** Executable glue for the correspondence check: parses a case line (the same text the Go
    harness executes against the implementation), runs the model function, renders the
    canonical outcome.  The same [run_case] is evaluated by [vm_compute] (cases.v slices) and
    by the extracted OCaml runner, so the two evaluation routes check each other.
    Nothing in this file is used by a theorem. *)
From Coq Require Import String.
From OtpV Require Import Prelude Sha Tables Errors Decoder Derive Otp Ocra Rfc4226 Rfc6287 Rfc4648 Utils Random Suite SuiteName Url Wasm JsExports Rest.
Open Scope string_scope.
Open Scope N_scope.
Open Scope list_scope.

Fixpoint split_on_aux (sep : N) (s : bytes) (cur : bytes) : list bytes :=
  match s with
  | [] => [frev cur]
  | c :: t => if c =? sep then frev cur :: split_on_aux sep t [] else split_on_aux sep t (c :: cur)
  end.
Definition split_on (sep : N) (s : bytes) : list bytes := split_on_aux sep s [].

Definition hexval (c : N) : N :=
  if (48 <=? c) && (c <=? 57) then c - 48
  else if (97 <=? c) && (c <=? 102) then c - 87
  else if (65 <=? c) && (c <=? 70) then c - 55 else 0.
Fixpoint unhex_pairs (s : bytes) : bytes :=
  match s with
  | a :: b :: t => (hexval a * 16 + hexval b) :: unhex_pairs t
  | _ => []
  end.
(** field "x<hex>" *)
Definition unhx (s : bytes) : bytes := match s with _ :: t => unhex_pairs t | [] => [] end.

Definition hexdig (v : N) : N := if v <? 10 then 48 + v else 87 + v.
Definition hex_of (b : bytes) : bytes := flat_map (fun x => [hexdig (x / 16); hexdig (x mod 16)]) b.

Definition parse_N (s : bytes) : N := fold_left (fun acc c => acc * 10 + (c - 48)) s 0.
Definition parse_Z (s : bytes) : Z :=
  match s with
  | 45 :: t => (- Z.of_N (parse_N t))%Z
  | _ => Z.of_N (parse_N s)
  end.
Definition parse_bool (s : bytes) : bool := match s with [49] => true | _ => false end.

Definition fld (l : list bytes) (i : nat) : bytes := nth i l [].

Definition parse_param (s : bytes) : option param :=
  match s with
  | [45] => None
  | _ => let f := split_on 44 s in
         Some (mkParam (parse_N (fld f 0)) (parse_N (fld f 1)) (parse_N (fld f 2)) (parse_N (fld f 3)))
  end.

Definition parse_suite (s : bytes) : suite_cfg :=
  let f := split_on 44 s in
  mkSuite (unhx (fld f 0)) (parse_N (fld f 1)) (parse_Z (fld f 2)) (parse_Z (fld f 3))
          (parse_bool (fld f 4)) (parse_bool (fld f 5)) (parse_bool (fld f 6)) (parse_bool (fld f 7))
          (parse_bool (fld f 8)) (parse_Z (fld f 9)) (parse_Z (fld f 10)).

Definition parse_input (s : bytes) : ocra_input :=
  let f := split_on 44 s in
  mkInput (unhx (fld f 0)) (unhx (fld f 1)) (unhx (fld f 2)) (unhx (fld f 3)) (unhx (fld f 4)).

(** time "sec,nsec,zone,mono": the model reads the seconds only *)
Definition parse_time_sec (s : bytes) : Z := parse_Z (fld (split_on 44 s) 0).

(** ---- outcome rendering ---- *)
Definition r_err (e : err) : bytes :=
  match render e with Some t => s2b "err:" ++ hex_of t | None => s2b "err:*" end.
Definition r_bytes (o : outcome bytes) : bytes :=
  match o with Ok b => s2b "ok:" ++ hex_of b | Err e => r_err e | Panic => s2b "panic" end.
Definition r_num (o : outcome N) : bytes :=
  match o with Ok n => s2b "ok:n" ++ dec_of_N n | Err e => r_err e | Panic => s2b "panic" end.
Definition r_unit (o : option err) : bytes :=
  match o with None => s2b "ok:" | Some e => r_err e end.
Definition r_verdict (o : outcome verdict * nat) : bytes :=
  match fst o with
  | Panic => s2b "panic"
  | Err e => r_err e
  | Ok (b, oe) =>
    s2b "v:" ++ (if b then s2b "true" else s2b "false") ++ s2b ":" ++
        match oe with
        | None => s2b "-"
        | Some e => match render e with Some t => hex_of t | None => s2b "*" end
        end
  end.

Definition r_input (o : outcome ocra_input) : bytes :=
  match o with
  | Ok i => s2b "ok:x" ++ hex_of (oi_counter i) ++ s2b ",x" ++ hex_of (oi_challenge i) ++ s2b ",x" ++ hex_of (oi_password i)
            ++ s2b ",x" ++ hex_of (oi_session i) ++ s2b ",x" ++ hex_of (oi_timestamp i)
  | Err e => r_err e
  | Panic => s2b "panic"
  end.

Definition r_history (h : list (nat * outcome bytes)) : bytes :=
  s2b "r:" ++ flat_map (fun '(pos, o) =>
      dec_of_N (N.of_nat pos) ++ [58] ++ match o with Ok sec => sec | _ => s2b "err" end ++ [59]) h.

(** ---- per-operation domain of the property theorems (outside it a disagreement is model
    drift, not a violation: the property says nothing there) ---- *)
Definition skew_of (p : option param) (d : param) : N := p_skew (match p with Some p => p | None => d end).
Definition period_of (p : option param) : N :=
  let pe := p_period (match p with Some p => p | None => default_totp_param end) in if pe =? 0 then 30 else pe.

Definition two62z : Z := 4611686018427387904%Z.

(** ---- suite registry and parser (C15) ---- *)
Definition b01 (b : bool) : bytes := if b then [49] else [48].
Definition suite_text (c : suite_cfg) : bytes :=
  s2b "x" ++ hex_of (sc_raw c) ++ [44] ++ dec_of_N (sc_hash c) ++ [44] ++ dec_of_Z (sc_digits c) ++ [44] ++ dec_of_Z (sc_challenge c)
  ++ [44] ++ b01 (sc_c c) ++ [44] ++ b01 (sc_q c) ++ [44] ++ b01 (sc_p c) ++ [44] ++ b01 (sc_s c) ++ [44] ++ b01 (sc_t c)
  ++ [44] ++ dec_of_Z (sc_pwhash c) ++ [44] ++ dec_of_Z (sc_timestep c).
Definition r_suite (o : outcome suite_cfg) : bytes :=
  match o with Ok c => s2b "cfg:" ++ suite_text c | Err e => r_err e | Panic => s2b "panic" end.

(** the model's ToUpper is exact for ASCII text and the two runes that upper-case to ASCII *)
Fixpoint upper_exact (s : bytes) : bool :=
  match s with
  | [] => true
  | 197 :: 191 :: t => upper_exact t
  | 196 :: 177 :: t => upper_exact t
  | c :: t => (c <? 128) && upper_exact t
  end.

Fixpoint bytes_leb (a b : bytes) : bool :=
  match a, b with
  | [], _ => true
  | _ :: _, [] => false
  | x :: a', y :: b' => if x <? y then true else if y <? x then false else bytes_leb a' b'
  end.
Fixpoint insert_sorted (x : bytes) (l : list bytes) : list bytes :=
  match l with
  | [] => [x]
  | y :: t => if bytes_leb x y then x :: l else y :: insert_sorted x t
  end.
Definition sort_names (l : list bytes) : list bytes := fold_right insert_sorted [] l.

(** ---- provisioning URLs (C16) ---- *)
Definition url_text (u : url) : bytes :=
  s2b "x" ++ hex_of (u_scheme u) ++ s2b ",x" ++ hex_of (u_opaque u) ++ [44] ++ b01 (u_user u) ++ s2b ",x" ++ hex_of (u_host u)
  ++ s2b ",x" ++ hex_of (u_path u) ++ s2b ",x" ++ hex_of (u_rawpath u) ++ [44] ++ b01 (u_forcequery u)
  ++ s2b ",x" ++ hex_of (u_rawquery u) ++ s2b ",x" ++ hex_of (u_fragment u).
Definition parse_url_fields (s : bytes) : option url :=
  match s with
  | [45] => None
  | _ => let f := split_on 44 s in
         Some (mkUrl (unhx (fld f 0)) (unhx (fld f 1)) (parse_bool (fld f 2)) (unhx (fld f 3)) (unhx (fld f 4)) (unhx (fld f 5))
                     (parse_bool (fld f 6)) (unhx (fld f 7)) (unhx (fld f 8)))
  end.
Definition urlparam_text (p : urlparam) : bytes :=
  s2b "up:x" ++ hex_of (up_issuer p) ++ s2b ",x" ++ hex_of (up_account p) ++ [44] ++ dec_of_N (up_period p) ++ s2b ",x" ++ hex_of (up_secret p)
  ++ [44] ++ dec_of_N (up_digits p) ++ [44] ++ dec_of_N (up_alg p).
Definition parse_urlparam (f : list bytes) (i : nat) : urlparam :=
  mkUrlParam (unhx (fld f i)) (unhx (fld f (i + 1))) (parse_N (fld f (i + 5))) (unhx (fld f (i + 2))) (parse_N (fld f (i + 3))) (parse_N (fld f (i + 4))).
Definition gen_url (kind : bytes) (p : urlparam) : outcome url :=
  if bytes_eqb kind (s2b "t") then generate_totp_url p else generate_hotp_url p.

(** ---- REST service (C18, C19) ---- *)
(** body specification: M:/N: raw text (malformed / valid but not an object), Z: raw text that decodes
    like an empty object (null, {}), O:<fields>, - no body.  fields: name~kind~value;... *)
Fixpoint parse_fields (fuel : nat) (s : bytes) : list (bytes * jv) :=
  match fuel with
  | O => []
  | S f =>
    match s with
    | [] => []
    | _ =>
      map (fun fld_ =>
             let p := split_on 126 fld_ in
             let name := fld p 0 in let kind := fld p 1 in let v := fld p 2 in
             (name,
              if bytes_eqb kind (s2b "s") then JvStr (unhx v)
              else if bytes_eqb kind (s2b "i") then JvInt (parse_Z v)
              else if bytes_eqb kind (s2b "r") then JvFrac
              else if bytes_eqb kind (s2b "b") then JvBool (parse_bool v)
              else if bytes_eqb kind (s2b "n") then JvNull
              else if bytes_eqb kind (s2b "a") then JvArr
              else JvObj (parse_fields f (unhx v))))
          (split_on 59 s)
    end
  end.
Definition parse_body (spec : bytes) : body :=
  match spec with
  | 77 :: _ => BMalformed
  | 78 :: _ => BNonObject
  | 90 :: _ => BObject []
  | 79 :: _ :: t => BObject (parse_fields 4 t)
  | _ => BMalformed          (* no body: json.Unmarshal of an empty input fails *)
  end.
Definition strip_alg_query (q : bytes) : bytes :=
  if is_prefix (s2b "algorithm=") q then skipn 10 q else [].
Definition opt_num (o : option bytes) : bytes := match o with Some t => t | None => [45] end.
Definition r_payload (st : N) (p : payload) (now_dependent : bool) : bytes :=
  dec_of_N st ++ [124] ++
  match p with
  | PCode code ts counter suite =>
    if now_dependent then s2b "code:@now"
    else s2b "code:x" ++ hex_of code ++ s2b ",ts=" ++ opt_num (option_map dec_of_Z ts) ++ s2b ",counter=" ++ opt_num (option_map dec_of_N counter)
         ++ s2b ",suite=" ++ match suite with Some n => s2b "x" ++ hex_of n | None => [45] end
  | PValid b => if now_dependent then s2b "valid:@now" else s2b "valid:" ++ b01 b
  | PUrl u => s2b "url:x" ++ hex_of u
  | PSecret a => s2b "secret:x" ++ hex_of (alg_string a) ++ s2b ",len=" ++
                 dec_of_N (match secret_size a with Some n => N.of_nat n | None => 0 end) ++ s2b ",wellformed=1"
  | PSuites names => s2b "suites:" ++ join 44 (sort_names names)
  | PSuiteCfg raw c =>
    s2b "suitecfg:x" ++ hex_of raw ++ s2b ",x" ++ hex_of (alg_string (sc_hash c)) ++ [44] ++ dec_of_Z (sc_digits c) ++ [44] ++ dec_of_Z (sc_challenge c)
    ++ [44] ++ b01 (sc_c c) ++ [44] ++ b01 (sc_q c) ++ [44] ++ b01 (sc_p c) ++ [44] ++ b01 (sc_s c) ++ [44] ++ b01 (sc_t c)
    ++ [44] ++ dec_of_Z (sc_pwhash c) ++ [44] ++ dec_of_Z (sc_timestep c)
  | PHome => s2b "home:"
  | PError msg => s2b "err:x" ++ hex_of msg
  | PText t => s2b "text:x" ++ hex_of t
  | PRedirect l => s2b "loc:x" ++ hex_of l
  | POther => s2b "other"
  end.
(** is the answer a function of the server's clock? (timestamp absent, null or not positive) *)
Definition uses_now (path : bytes) (b : body) : bool :=
  (bytes_eqb path (s2b "/totp/generate") || bytes_eqb path (s2b "/totp/validate")) &&
  match b with
  | BObject f => match field "timestamp" f with Some (JvInt z) => (z <=? 0)%Z | _ => true end
  | _ => false
  end.
Definition run_rest (f : list bytes) : bytes * bool :=
  let meth := fld f 2 in
  let path := unhx (fld f 3) in
  let b := parse_body (fld f 5) in
  let req := mkReq meth path (strip_alg_query (unhx (fld f 4))) b in
  let '(resp, _) := handle 1%Z req in
  (r_payload (status resp) (pay resp) (uses_now path b && (status resp =? 200)), true).

Definition run_fields8 (f : list bytes) : bytes * bool :=
  let op := fld f 0 in
  if bytes_eqb op (s2b "rreq") then run_rest f
  else if bytes_eqb op (s2b "rburst") then (s2b "ok:", true)
  else (s2b "unknown-op", true).

(** ---- WebAssembly / JavaScript binding (C20) ---- *)
Definition parse_js_int (s : bytes) : Z :=
  match s with
  | 45 :: t => (- Z.of_N (parse_N t))%Z
  | _ => Z.of_N (parse_N s)
  end.
(** numbers written like 1e300 / -1e300 are beyond the int64 range *)
Definition parse_jsnum (s : bytes) : jsnum :=
  if bytes_eqb s (s2b "NaN") then NNaN else if bytes_eqb s (s2b "Inf") then NInf else if bytes_eqb s (s2b "-Inf") then NNegInf
  else if existsb (N.eqb 101) s then NInt (if match s with 45 :: _ => true | _ => false end then (- 2 ^ 200)%Z else (2 ^ 200)%Z)
  else NInt (parse_js_int s).
Definition parse_jsval (s : bytes) : jsval :=
  match s with
  | 115 :: t => JStr (unhex_pairs t)
  | 110 :: t => JNum (parse_jsnum t)
  | 113 :: t => JNum (NFrac (parse_js_int t))
  | 98 :: _ => JBool (bytes_eqb s (s2b "b1"))
  | 117 :: _ => JUndef
  | 108 :: _ => JNull
  | 111 :: _ => JObj
  | 97 :: _ => JObj
  | 102 :: _ => JFunc
  | 121 :: _ => JSym
  | 103 :: _ => JBigInt
  | _ => JUndef
  end.
Definition r_wres (r : wres) : bytes :=
  match r with
  | WStr t => s2b "s:" ++ hex_of t
  | WBool b => s2b "b:" ++ (if b then s2b "true" else s2b "false")
  end.
Definition exports_text : bytes :=
  s2b "ok:" ++ join 44 (sort_names (map (fun e => fst e ++ [61] ++
      (if bytes_eqb (fst e) (snd e) && existsb (fun g => bytes_eqb (fst g) (snd e)) js_globals then [49] else [48])) js_exports)).

Definition run_fields7 (f : list bytes) : bytes * bool :=
  let a i := fld f i in
  let op := a 0%nat in
  if bytes_eqb op (s2b "wcall") then
    match wasm_call (a 1%nat) (map parse_jsval (skipn 3 f)) with
    | Some r => (r_wres r, true)
    | None => (s2b "nofunc", true)
    end
  else if bytes_eqb op (s2b "wexports") then (exports_text, true)
  else run_fields8 f.

(** the native library's answer for a call of the binding with well-typed arguments in the common
    domain (counter / timestamp < 2^53, period 1..3600, skew 0..10): the specification column *)
Definition js_str_of (v : jsval) : option bytes := match v with JStr (c :: t) => Some (c :: t) | _ => None end.
Definition js_nat_of (v : jsval) : option N :=
  match v with
  | JNum (NInt z) | JNum (NFrac z) => if (0 <=? z)%Z && (z <=? 9007199254740992)%Z then Some (Z.to_N z) else None
  | _ => None
  end.
Definition native_hex (o : outcome bytes) : bytes :=
  match o with Ok c => s2b "s:" ++ hex_of c | _ => s2b "sprefix:" ++ hex_of (s2b "error: ") end.
Definition native_verdict (o : outcome verdict * nat) : bytes :=
  match fst o with Ok (true, None) => s2b "b:true" | _ => s2b "b:false" end.
Definition spec_wasm (f : list bytes) : option bytes :=
  let name := fld f 1 in
  let args := map parse_jsval (skipn 3 f) in
  let ar i := nth i args JUndef in
  if bytes_eqb name (s2b "generateHOTP") && Nat.eqb (length args) 4 then
    match js_str_of (ar 0%nat), js_nat_of (ar 1%nat), js_str_of (ar 2%nat), js_str_of (ar 3%nat) with
    | Some sec, Some c, Some d, Some al =>
      Some (native_hex (generate_hotp sec c (Some (mkParam (digits_from_str d) 0 0 (algorithm_from_str al)))))
    | _, _, _, _ => None
    end
  else if bytes_eqb name (s2b "generateTOTP") && Nat.eqb (length args) 5 then
    match js_str_of (ar 0%nat), js_nat_of (ar 1%nat), js_str_of (ar 2%nat), js_str_of (ar 3%nat), js_nat_of (ar 4%nat) with
    | Some sec, Some t, Some d, Some al, Some per =>
      if (1 <=? per) && (per <=? 3600) then
        Some (native_hex (generate_totp sec (Z.of_N t) (Some (mkParam (digits_from_str d) per 0 (algorithm_from_str al)))))
      else None
    | _, _, _, _, _ => None
    end
  else if bytes_eqb name (s2b "validateHOTP") && Nat.eqb (length args) 6 then
    match js_str_of (ar 0%nat), js_str_of (ar 1%nat), js_nat_of (ar 2%nat), js_str_of (ar 3%nat), js_str_of (ar 4%nat), js_nat_of (ar 5%nat) with
    | Some sec, Some code, Some c, Some d, Some al, Some sk =>
      if sk <=? 10 then
        match decode_secret sec with
        | Ok _ => Some (native_verdict (validate_hotp sec code c (Some (mkParam (digits_from_str d) 0 sk (algorithm_from_str al)))))
        | _ => Some (s2b "sprefix:" ++ hex_of (s2b "error: "))
        end
      else None
    | _, _, _, _, _, _ => None
    end
  else if bytes_eqb name (s2b "validateTOTP") && Nat.eqb (length args) 7 then
    match js_str_of (ar 0%nat), js_str_of (ar 1%nat), js_nat_of (ar 2%nat), js_str_of (ar 3%nat), js_str_of (ar 4%nat), js_nat_of (ar 5%nat), js_nat_of (ar 6%nat) with
    | Some sec, Some code, Some t, Some d, Some al, Some sk, Some per =>
      if (sk <=? 10) && (1 <=? per) && (sk <=? t / per) then
        match decode_secret sec with
        | Ok _ => Some (native_verdict (validate_totp sec code (Z.of_N t) (Some (mkParam (digits_from_str d) per sk (algorithm_from_str al)))))
        | _ => Some (s2b "sprefix:" ++ hex_of (s2b "error: "))
        end
      else None
    | _, _, _, _, _, _, _ => None
    end
  else if bytes_eqb name (s2b "generateOTPURL") && Nat.eqb (length args) 6 then
    match js_str_of (ar 0%nat), js_str_of (ar 1%nat), js_str_of (ar 2%nat), js_str_of (ar 3%nat), js_str_of (ar 4%nat), js_str_of (ar 5%nat) with
    | Some ty, Some iss, Some acc, Some sec, Some d, Some al =>
      let p := mkUrlParam iss acc 0 sec (digits_from_str d) (algorithm_from_str al) in
      if bytes_eqb ty (s2b "totp") then Some (match generate_totp_url p with Ok u => s2b "s:" ++ hex_of (url_string u) | _ => s2b "sprefix:" ++ hex_of (s2b "error: ") end)
      else if bytes_eqb ty (s2b "hotp") then Some (match generate_hotp_url p with Ok u => s2b "s:" ++ hex_of (url_string u) | _ => s2b "sprefix:" ++ hex_of (s2b "error: ") end)
      else Some (s2b "sprefix:" ++ hex_of (s2b "error: "))
    | _, _, _, _, _, _ => None
    end
  else None.

(** ---- chains: generate, then validate the returned string; overwritten suites; short reads ---- *)
Definition r_gv (code : bytes) (v : outcome verdict * nat) : bytes := r_verdict v ++ [124] ++ hex_of code.
Definition run_fields6 (f : list bytes) : bytes * bool :=
  let a i := fld f i in
  let op := a 0%nat in
  if bytes_eqb op (s2b "gvhotp") then
    let p := parse_param (a 4%nat) in
    let sk := skew_of p default_hotp_param in
    (match generate_hotp (unhx (a 1%nat)) (parse_N (a 2%nat)) p with
     | Ok code => r_gv code (validate_hotp (unhx (a 1%nat)) code (parse_N (a 3%nat)) p)
     | Err e => r_err e | Panic => s2b "panic" end,
     (10 <? sk) || (parse_N (a 3%nat) + sk <? two64))
  else if bytes_eqb op (s2b "gvtotp") then
    let p := parse_param (a 4%nat) in
    let t1 := parse_time_sec (a 2%nat) in let t2 := parse_time_sec (a 3%nat) in
    let sk := skew_of p default_totp_param in
    (match generate_totp (unhx (a 1%nat)) t1 p with
     | Ok code => r_gv code (validate_totp (unhx (a 1%nat)) code t2 p)
     | Err e => r_err e | Panic => s2b "panic" end,
     (0 <=? t1)%Z && (t1 <? two62z)%Z && (0 <=? t2)%Z && (t2 <? two62z)%Z && ((10 <? sk) || (sk <=? Z.to_N t2 / period_of p)))
  else if bytes_eqb op (s2b "gvocra") then
    let cfg := parse_suite (a 2%nat) in
    (match generate_ocra (unhx (a 1%nat)) cfg (parse_input (a 3%nat)) with
     | Ok code => r_gv code (validate_ocra (unhx (a 1%nat)) code cfg (parse_input (a 4%nat)))
     | Err e => r_err e | Panic => s2b "panic" end, true)
  else if bytes_eqb op (s2b "gocra_nil") then      (* a nil Suite: ErrInvalidRawSuite once the secret is decoded *)
    (r_bytes (obind (decode_secret (unhx (a 1%nat))) (fun _ => Err (ESent ErrInvalidRawSuite))), true)
  else if bytes_eqb op (s2b "vocra_nil") then
    (r_verdict (match decode_secret (unhx (a 1%nat)) with
                | Ok _ => (Ok (false, Some (ESent ErrInvalidRawSuite)), O)
                | Err e => (Ok (false, Some e), O)
                | Panic => (Panic, O) end), true)
  else if bytes_eqb op (s2b "gocra_mut") then
    (r_bytes (generate_ocra (unhx (a 2%nat)) (parse_suite (a 3%nat)) (parse_input (a 4%nat))), true)
  else if bytes_eqb op (s2b "vocra_mut") then
    (r_verdict (validate_ocra (unhx (a 2%nat)) (unhx (a 3%nat)) (parse_suite (a 4%nat)) (parse_input (a 5%nat))), true)
  else if bytes_eqb op (s2b "randchunk") then
    let buf := unhx (a 1%nat) in
    (r_history (run_calls (fun i => nth i buf 0) 0 (map parse_N (split_on 44 (a 3%nat)))), true)
  else run_fields7 f.

Definition run_fields5 (f : list bytes) : bytes * bool :=
  let a i := fld f i in
  let op := a 0%nat in
  if bytes_eqb op (s2b "gurl") then
    (match gen_url (a 1%nat) (parse_urlparam f 2) with
     | Ok u => s2b "url:" ++ url_text u ++ s2b "|x" ++ hex_of (url_string u)
     | Err e => r_err e | Panic => s2b "panic" end, true)
  else if bytes_eqb op (s2b "uparse") then
    match url_parse (unhx (a 1%nat)) with
    | POk u => (s2b "url:" ++ url_text u, true)
    | PErr => (s2b "err:*", true)
    | POut => (s2b "out-of-model", false)
    end
  else if bytes_eqb op (s2b "ustr") then
    match parse_url_fields (a 1%nat) with
    | Some u => (s2b "ok:" ++ hex_of (url_string u), negb (u_user u))
    | None => (s2b "panic", true)
    end
  else if bytes_eqb op (s2b "purl") then
    (match parse_otpauth_url (parse_url_fields (a 1%nat)) with
     | Ok p => urlparam_text p | Err e => r_err e | Panic => s2b "panic" end, true)
  else if bytes_eqb op (s2b "rturl") then
    match gen_url (a 1%nat) (parse_urlparam f 2) with
    | Ok u =>
      match url_parse (url_string u) with
      | POk u2 => (match parse_otpauth_url (Some u2) with
                   | Ok p => urlparam_text p ++ s2b "|x" ++ hex_of (u_scheme u2) ++ s2b ",x" ++ hex_of (u_host u2)
                   | Err e => r_err e | Panic => s2b "panic" end, true)
      | PErr => (s2b "bad:generated-url-does-not-parse", true)
      | POut => (s2b "out-of-model", false)
      end
    | Err e => (r_err e, true)
    | Panic => (s2b "panic", true)
    end
  else if bytes_eqb op (s2b "digstr") then (s2b "ok:n" ++ dec_of_N (digits_from_str (unhx (a 1%nat))), true)
  else if bytes_eqb op (s2b "algstr") then (s2b "ok:n" ++ dec_of_N (algorithm_from_str (unhx (a 1%nat))), true)
  else if bytes_eqb op (s2b "algname") then (s2b "ok:" ++ hex_of (alg_string (parse_N (a 1%nat))), true)
  else if bytes_eqb op (s2b "digint") then (s2b "ok:n" ++ dec_of_N (parse_N (a 1%nat)), true)
  else run_fields6 f.

Definition run_fields4 (f : list bytes) : bytes * bool :=
  let a i := fld f i in
  let op := a 0%nat in
  if bytes_eqb op (s2b "nraw") then (r_suite (new_raw_suite (unhx (a 1%nat))), upper_exact (unhx (a 1%nat)))
  else if bytes_eqb op (s2b "praw") then (r_suite (parse_raw_suite (unhx (a 1%nat))), upper_exact (unhx (a 1%nat)))
  else if bytes_eqb op (s2b "nsuite") then (r_suite (new_suite (parse_suite (a 1%nat))), true)
  else if bytes_eqb op (s2b "known") then (s2b "ok:n" ++ (if is_known_suite (unhx (a 1%nat)) then [49] else [48]), true)
  else if bytes_eqb op (s2b "fromraws") then (s2b "cfg:" ++ suite_text (suite_config_from_raws (unhx (a 1%nat))), true)
  else if bytes_eqb op (s2b "listsuites") || bytes_eqb op (s2b "listsuites_after_edit") then (s2b "ok:" ++ join 44 (sort_names list_suites), true)
  else run_fields5 f.

(** [scan <case>]: harness self-check that the error text of the inner case discloses neither
    secret nor expected code; the model's answer is the constant "clean" (C13 theorems). *)
Definition run_fields3 (f : list bytes) : bytes * bool :=
  if bytes_eqb (fld f 0) (s2b "scan") then (s2b "clean", true) else run_fields4 f.

(** operations added after the first batch: utils, random secrets *)
Definition run_fields2 (f : list bytes) : bytes * bool :=
  let a i := fld f i in
  let op := a 0%nat in
  if bytes_eqb op (s2b "to8") then (s2b "ok:" ++ hex_of (to8 (parse_N (a 1%nat))), true)
  else if bytes_eqb op (s2b "pdec8a") || bytes_eqb op (s2b "pdec8b") then (r_bytes (parse_decimal_be8 (unhx (a 1%nat))), true)
  else if bytes_eqb op (s2b "lpad") then
    let w := parse_Z (a 2%nat) in (r_bytes (left_pad_hex (unhx (a 1%nat)) w), (w <=? 1048576)%Z)
  else if bytes_eqb op (s2b "mhex") then
    let w := parse_Z (a 2%nat) in (r_bytes (must_hex_pad_left (unhx (a 1%nat)) w), (-1000 <=? w)%Z && (w <=? 524288)%Z)
  else if bytes_eqb op (s2b "phexts") then (r_bytes (parse_hex_timestamp (unhx (a 1%nat))), true)
  else if bytes_eqb op (s2b "pchal") then (r_bytes (parse_decimal_challenge (unhx (a 1%nat))), true)
  else if bytes_eqb op (s2b "hexin") then
    (r_input (hex_input_to_ocra (unhx (a 1%nat)) (unhx (a 2%nat)) (unhx (a 3%nat)) (unhx (a 4%nat)) (unhx (a 5%nat))), true)
  else if bytes_eqb op (s2b "b32enc") then (s2b "ok:" ++ hex_of (b32_nopad (unhx (a 1%nat))), true)
  else if bytes_eqb op (s2b "rand") then
    let buf := unhx (a 1%nat) in
    (r_history (run_calls (fun i => nth i buf 0) 0 (map parse_N (split_on 44 (a 2%nat)))), true)
  else if bytes_eqb op (s2b "randconc") then (s2b "ok:", true)    (* harness self-check; see C08 *)
  else run_fields3 f.

Definition run_fields (f : list bytes) : bytes * bool :=
  let a i := fld f i in
  let op := a 0%nat in
  if bytes_eqb op (s2b "decode") then (r_bytes (decode_secret (unhx (a 1%nat))), true)
  else if bytes_eqb op (s2b "ghotp") then
    (r_bytes (generate_hotp (unhx (a 1%nat)) (parse_N (a 2%nat)) (parse_param (a 3%nat))), true)
  else if bytes_eqb op (s2b "vhotp") then
    let p := parse_param (a 4%nat) in
    let sk := skew_of p default_hotp_param in
    (r_verdict (validate_hotp (unhx (a 1%nat)) (unhx (a 2%nat)) (parse_N (a 3%nat)) p), true)
  else if bytes_eqb op (s2b "gtotp") then
    let t := parse_time_sec (a 2%nat) in
    (r_bytes (generate_totp (unhx (a 1%nat)) t (parse_param (a 3%nat))), true)
  else if bytes_eqb op (s2b "vtotp") then
    let t := parse_time_sec (a 3%nat) in
    let p := parse_param (a 4%nat) in
    (r_verdict (validate_totp (unhx (a 1%nat)) (unhx (a 2%nat)) t p), true)
  else if bytes_eqb op (s2b "gocra") || bytes_eqb op (s2b "gocra_raw") then
    (r_bytes (generate_ocra (unhx (a 1%nat)) (parse_suite (a 2%nat)) (parse_input (a 3%nat))), true)
  else if bytes_eqb op (s2b "vocra") then
    (r_verdict (validate_ocra (unhx (a 1%nat)) (unhx (a 2%nat)) (parse_suite (a 3%nat)) (parse_input (a 4%nat))), true)
  else if bytes_eqb op (s2b "d4226") then
    (r_bytes (derive_rfc4226 (unhx (a 1%nat)) (parse_N (a 2%nat)) (parse_Z (a 3%nat)) (parse_N (a 4%nat))), true)
  else if bytes_eqb op (s2b "d6287") then
    (r_bytes (derive_rfc6287 (unhx (a 1%nat)) (parse_suite (a 2%nat)) (parse_input (a 3%nat))), true)
  else if bytes_eqb op (s2b "trunc") then (r_num (truncate (unhx (a 1%nat)) (parse_N (a 2%nat))), true)
  else if bytes_eqb op (s2b "short") then (r_bytes (short_digit (parse_N (a 1%nat)) (parse_Z (a 2%nat))), true)
  else if bytes_eqb op (s2b "long") then (r_bytes (long_digit (parse_N (a 1%nat)) (parse_Z (a 2%nat))), true)
  else if bytes_eqb op (s2b "fmtdec") then (r_bytes (format_decimal (parse_N (a 1%nat)) (parse_Z (a 2%nat))), true)
  else if bytes_eqb op (s2b "padb") then (r_bytes (pad_bytes (unhx (a 1%nat)) (parse_Z (a 2%nat))), true)
  else if bytes_eqb op (s2b "mod10") then (r_num (mod10_at (parse_Z (a 1%nat))), true)
  else if bytes_eqb op (s2b "hmac") then
    (match alg_of_N (parse_N (a 1%nat)) with
     | Some al => s2b "ok:" ++ hex_of (hmac al (unhx (a 2%nat)) (unhx (a 3%nat)))
     | None => s2b "unknown-op" end, true)
  else if bytes_eqb op (s2b "svalidate") then (r_unit (suite_validate (parse_suite (a 1%nat))), true)
  else if bytes_eqb op (s2b "ivalidate") then
    (r_unit (input_validate (parse_suite (a 1%nat)) (parse_input (a 2%nat))), true)
  else run_fields2 f.

(** ---- the specification, evaluated on the same case (third output column).  It does not
    depend on Generated/Tables.v, so a wrong table entry shows up as impl <> spec even though
    the regenerated model follows the table. ---- *)
Definition werr {A} : outcome A := Err (EStd 0 []).
Definition eff30 (period : N) : N := if period =? 0 then 30 else period.

Definition spec_ghotp (secret : bytes) (c : N) (p : option param) : outcome bytes :=
  let p := match p with Some p => p | None => mkParam 6 0 2 0 end in
  match decode_secret secret, alg_of_N (p_alg p) with
  | Ok key, Some a =>
    if (1 <=? p_digits p) && (p_digits p <=? 10) then Ok (hotp_value hmac a key c (N.to_nat (p_digits p))) else werr
  | _, _ => werr
  end.

Definition spec_window (secret code : bytes) (centre : N) (p : param) : bytes :=
  if 10 <? p_skew p then s2b "v:false:*"
  else match decode_secret secret, alg_of_N (p_alg p) with
       | Ok key, Some a =>
         if (1 <=? p_digits p) && (p_digits p <=? 10) then
           let cs := map (fun k => centre - p_skew p + N.of_nat k) (seq 0 (N.to_nat (centre + p_skew p - (centre - p_skew p)) + 1)) in
           if existsb (fun c' => bytes_eqb code (hotp_value hmac a key c' (N.to_nat (p_digits p)))) cs
           then s2b "v:true:-" else s2b "v:false:*"
         else s2b "v:false:*"
       | _, _ => s2b "v:false:*"
       end.

Definition usable_b (cfg : suite_cfg) : bool :=
  (4 <=? sc_digits cfg)%Z && (sc_digits cfg <=? 10)%Z && (sc_hash cfg <? 3) &&
  (negb (sc_p cfg) || negb (sc_pwhash cfg =? 0)%Z) && (negb (sc_t cfg) || (0 <? sc_timestep cfg)%Z) &&
  (negb (sc_q cfg) || negb (sc_challenge cfg =? 0)%Z).
Definition chal_min_b (f : Z) : Z :=
  if ((f =? 1) || (f =? 3) || (f =? 5))%Z then 8%Z else if ((f =? 2) || (f =? 4) || (f =? 6))%Z then 10%Z else 0%Z.
Definition admissible_b (cfg : suite_cfg) (i : ocra_input) : bool :=
  (negb (sc_c cfg) || (zlen (oi_counter i) =? 8)%Z) &&
  (negb (sc_q cfg) || ((chal_min_b (sc_challenge cfg) <=? zlen (oi_challenge i))%Z && (zlen (oi_challenge i) <=? 128)%Z)) &&
  (negb (sc_p cfg) || (zlen (oi_password i) =? (if (sc_pwhash cfg =? 1)%Z then 20 else if (sc_pwhash cfg =? 2)%Z then 32 else 64))%Z) &&
  (negb (sc_s cfg) || (zlen (oi_session i) <=? 128)%Z) &&
  (negb (sc_t cfg) || (zlen (oi_timestamp i) =? 8)%Z).
Definition enum_ok_b (cfg : suite_cfg) : bool :=
  (0 <=? sc_challenge cfg)%Z && (sc_challenge cfg <=? 6)%Z && (negb (sc_p cfg) || ((1 <=? sc_pwhash cfg)%Z && (sc_pwhash cfg <=? 3)%Z)).
Definition selb (b : bool) (x : bytes) : option bytes := if b then Some x else None.

Definition spec_gocra (secret : bytes) (cfg : suite_cfg) (i : ocra_input) : outcome bytes :=
  match decode_secret secret, alg_of_N (sc_hash cfg) with
  | Ok key, Some a =>
    if usable_b cfg && admissible_b cfg i then
      Ok (ocra_value hmac a key (sc_raw cfg) (selb (sc_c cfg) (oi_counter i)) (selb (sc_q cfg) (oi_challenge i))
            (selb (sc_p cfg) (oi_password i)) (selb (sc_s cfg) (oi_session i)) (selb (sc_t cfg) (oi_timestamp i))
            (Z.to_nat (sc_digits cfg)))
    else werr
  | _, _ => werr
  end.

Definition spec_fields (f : list bytes) : option bytes :=
  let a i := fld f i in
  let op := a 0%nat in
  if bytes_eqb op (s2b "ghotp") then Some (r_bytes (spec_ghotp (unhx (a 1%nat)) (parse_N (a 2%nat)) (parse_param (a 3%nat))))
  else if bytes_eqb op (s2b "gtotp") then
    let p := match parse_param (a 3%nat) with Some p => p | None => mkParam 6 30 0 0 end in
    let t := parse_time_sec (a 2%nat) in
    if (0 <=? t)%Z && (t <? two62z)%Z
    then Some (r_bytes (spec_ghotp (unhx (a 1%nat)) (Z.to_N t / eff30 (p_period p)) (Some p))) else None
  else if bytes_eqb op (s2b "vhotp") then
    let p := match parse_param (a 4%nat) with Some p => p | None => mkParam 6 0 2 0 end in
    if (10 <? p_skew p) || (parse_N (a 3%nat) + p_skew p <? two64)
    then Some (spec_window (unhx (a 1%nat)) (unhx (a 2%nat)) (parse_N (a 3%nat)) p) else None
  else if bytes_eqb op (s2b "vtotp") then
    let p := match parse_param (a 4%nat) with Some p => p | None => mkParam 6 30 0 0 end in
    let t := parse_time_sec (a 3%nat) in
    if (0 <=? t)%Z && (t <? two62z)%Z && ((10 <? p_skew p) || (p_skew p <=? Z.to_N t / eff30 (p_period p)))
    then Some (spec_window (unhx (a 1%nat)) (unhx (a 2%nat)) (Z.to_N t / eff30 (p_period p)) p) else None
  else if bytes_eqb op (s2b "gocra") || bytes_eqb op (s2b "gocra_raw") then
    let cfg := parse_suite (a 2%nat) in
    if enum_ok_b cfg then Some (r_bytes (spec_gocra (unhx (a 1%nat)) cfg (parse_input (a 3%nat)))) else None
  else if bytes_eqb op (s2b "vocra") then
    let cfg := parse_suite (a 3%nat) in
    if enum_ok_b cfg then
      Some (match spec_gocra (unhx (a 1%nat)) cfg (parse_input (a 4%nat)) with
            | Ok code => if bytes_eqb code (unhx (a 2%nat)) then s2b "v:true:-" else s2b "v:false:*"
            | _ => s2b "v:false:*" end)
    else None
  else if bytes_eqb op (s2b "wcall") then spec_wasm f
  else if bytes_eqb op (s2b "rturl") then
    let p := parse_urlparam f 2 in
    let totp := bytes_eqb (a 1%nat) (s2b "t") in
    if nonempty (up_issuer p) && nonempty (up_account p) && nonempty (up_secret p) && negb (contains 58 (up_issuer p))
       && (up_alg p <? 3) && (up_period p <? two63) then
      Some (urlparam_text (mkUrlParam (up_issuer p) (up_account p) (if totp then (if up_period p =? 0 then 30 else up_period p) else 30)
                                      (up_secret p) (if up_digits p =? 0 then 6 else up_digits p) (up_alg p))
            ++ s2b "|x" ++ hex_of (s2b "otpauth") ++ s2b ",x" ++ hex_of (if totp then s2b "totp" else s2b "hotp"))
    else None
  else if bytes_eqb op (s2b "nraw") || bytes_eqb op (s2b "praw") then
    let raw := unhx (a 1%nat) in
    match read_name raw with
    | Some ast =>
      let '(h, d, ch, c, q, p, s_, t, pw, ts) := denote ast in
      Some (s2b "maybe:cfg:" ++ suite_text (mkSuite raw h d ch c q p s_ t pw ts))
    | None => None
    end
  else if bytes_eqb op (s2b "mod10") then
    let i := parse_N (a 1%nat) in if (1 <=? i) && (i <=? 10) then Some (s2b "ok:n" ++ dec_of_N (10 ^ i)) else None
  else if bytes_eqb op (s2b "trunc") then
    let sum := unhx (a 1%nat) in let md := parse_N (a 2%nat) in
    if (Nat.leb 20 (length sum)) && negb (md =? 0) then Some (s2b "ok:n" ++ dec_of_N (dt31 sum mod md)) else None
  else if bytes_eqb op (s2b "short") then
    let d := parse_Z (a 2%nat) in
    if (0 <=? d)%Z && (d <=? 8)%Z then Some (s2b "ok:" ++ hex_of (pad_dec (Z.to_nat d) (parse_N (a 1%nat)))) else None
  else if bytes_eqb op (s2b "long") || bytes_eqb op (s2b "fmtdec") then
    let d := parse_Z (a 2%nat) in
    if (0 <=? d)%Z && (d <=? 12)%Z then Some (s2b "ok:" ++ hex_of (pad_dec (Z.to_nat d) (parse_N (a 1%nat)))) else None
  else None.

(** [conc g p rounds adv x<lines>]: the operations are pure functions of their arguments, so under any
    schedule every one of them answers what it answers alone; [canary layout <case>]: the inner
    operation, and a report that no memory the caller can see was written (C11, C12) *)
Definition run_top (f : list bytes) : bytes * bool :=
  let op := fld f 0 in
  if bytes_eqb op (s2b "conc") then
    let subs := map (fun l => run_fields (split_on 32 l)) (split_on 10 (unhx (fld f 5))) in
    (join 59 (map fst subs), forallb snd subs)
  else if bytes_eqb op (s2b "canary") then
    let '(out, dom) := run_fields (skipn 2 f) in (out ++ s2b "|mem:clean", dom)
  else run_fields f.

Definition run_case (line : bytes) : bytes :=
  let f := split_on 32 line in
  let '(out, dom) := run_top f in
  out ++ [9] ++ (if dom then [49] else [48]) ++ [9] ++
      (if dom then match spec_fields f with Some sp => sp | None => [45] end else [45]).
