package main

import (
	"encoding/base32"
	"encoding/hex"
	"strings"

	"github.com/ja7ad/otp"
)

func decodeLoose(secret string) []byte {
	s := strings.ToUpper(strings.TrimSpace(secret))
	s = strings.TrimRight(s, "=")
	b, err := base32.StdEncoding.WithPadding(base32.NoPadding).DecodeString(s)
	if err != nil {
		return nil
	}
	return b
}

// scan runs the inner case and checks that the error text it produced (if any) contains neither
// the secret (base32 text of >= 16 characters, raw key of >= 8 bytes) nor any code that would
// have been accepted (codes of >= 6 digits).  Harness self-check for C13's disclosure clause.
func scan(inner []string) string {
	out := run(strings.Join(inner, " "))
	var hx string
	switch {
	case strings.HasPrefix(out, "err:"):
		hx = out[4:]
	case strings.HasPrefix(out, "v:"):
		p := strings.SplitN(out, ":", 3)
		if len(p) == 3 && p[2] != "-" {
			hx = p[2]
		}
	}
	if hx == "" {
		return "clean"
	}
	tb, _ := hex.DecodeString(hx)
	text := string(tb)
	var forbidden []string
	if inner[0] == "purl" { // the secret is a query parameter of the URL
		if u := parseURLFields(inner[1]); u != nil {
			if sec := u.Query().Get("secret"); len(sec) >= 8 {
				if strings.Contains(text, sec) {
					return "leak:" + hex.EncodeToString([]byte(sec))
				}
			}
		}
		return "clean"
	}
	secret := string(unhx(inner[1]))
	trimmed := strings.TrimSpace(secret)
	if len(trimmed) >= 16 {
		forbidden = append(forbidden, trimmed, strings.ToUpper(trimmed), strings.TrimRight(strings.ToUpper(trimmed), "="))
	}
	key := decodeLoose(secret)
	if len(key) >= 8 {
		forbidden = append(forbidden, string(key), hex.EncodeToString(key), strings.ToUpper(hex.EncodeToString(key)))
	}
	if key != nil {
		switch inner[0] {
		case "vhotp", "ghotp":
			ci := 3
			pi := 4
			if inner[0] == "ghotp" {
				ci, pi = 2, 3
			}
			p := effParam(parseParam(inner[pi]), *otp.DefaultHOTPParam)
			if p.Digits >= 6 && p.Digits <= 10 && p.Algorithm <= 2 {
				for d := -12; d <= 12; d++ {
					forbidden = append(forbidden, refHOTP(key, u64(inner[ci])+uint64(int64(d)), p.Digits.Int(), uint64(p.Algorithm)))
				}
			}
		case "vtotp", "gtotp":
			ti, pi := 3, 4
			if inner[0] == "gtotp" {
				ti, pi = 2, 3
			}
			p := effParam(parseParam(inner[pi]), *otp.DefaultTOTPParam)
			per := uint64(p.Period)
			if per == 0 {
				per = 30
			}
			if p.Digits >= 6 && p.Digits <= 10 && p.Algorithm <= 2 {
				step := uint64(parseTime(inner[ti]).Unix()) / per
				for d := -12; d <= 12; d++ {
					forbidden = append(forbidden, refHOTP(key, step+uint64(int64(d)), p.Digits.Int(), uint64(p.Algorithm)))
				}
			}
		case "vocra", "gocra":
			si, ii := 3, 4
			if inner[0] == "gocra" {
				si, ii = 2, 3
			}
			c := parseSuite(inner[si])
			if c.Digits >= 6 && c.Digits <= 10 && c.Hash <= 2 {
				forbidden = append(forbidden, refCode(key, ocraMsg(c, parseInput(inner[ii])), c.Digits, uint64(c.Hash)))
			}
		}
	}
	for _, f := range forbidden {
		if f != "" && strings.Contains(text, f) {
			return "leak:" + hex.EncodeToString([]byte(f))
		}
	}
	return "clean"
}

func run3(f []string) (string, bool) {
	switch f[0] {
	case "scan":
		return scan(f[1:]), true
	}
	return run4(f)
}
