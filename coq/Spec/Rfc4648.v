(** RFC 4648 section 6, base32 *encoding*, written as the RFC describes it: the input is
    taken in groups of 5 bytes (40 bits); the bits of a group, most significant first, are cut
    into 5-bit groups (the last one zero-padded), each of which indexes the alphabet
    A-Z 2-7; a final group of 1,2,3,4 bytes gives 2,4,5,7 characters and the canonical form
    adds '=' up to 8.  Independent of the shifts and masks of the implementation.
    Used as the specification for C07 and C08. *)
From OtpV Require Import Prelude.
Open Scope N_scope.

(** most-significant-bit-first bits of the low [k] bits of [n] *)
Fixpoint to_bits (k : nat) (n : N) : list bool :=
  match k with
  | O => []
  | S k' => N.testbit n (N.of_nat k') :: to_bits k' n
  end.
Definition of_bits (l : list bool) : N := fold_left (fun acc (b : bool) => 2 * acc + (if b then 1 else 0)) l 0.

(** five bits at a time; an incomplete last group is padded with zero bits *)
Fixpoint quintets (l : list bool) : list (list bool) :=
  match l with
  | [] => []
  | a :: b :: c :: d :: e :: t => [a; b; c; d; e] :: quintets t
  | _ => [firstn 5 (l ++ [false; false; false; false])]
  end.

(** the input five bytes at a time *)
Fixpoint groups5 (bs : bytes) : list bytes :=
  match bs with
  | [] => []
  | a :: b :: c :: d :: e :: t => [a; b; c; d; e] :: groups5 t
  | _ => [bs]
  end.

(** 'A'..'Z','2'..'7' *)
Definition b32_char (v : N) : N := if v <? 26 then 65 + v else 50 + (v - 26).

Definition encode_group (g : bytes) : bytes :=
  map (fun q => b32_char (of_bits q)) (quintets (flat_map (to_bits 8) g)).

(** unpadded encoding *)
Definition b32_nopad (bs : bytes) : bytes := flat_map encode_group (groups5 bs).

(** number of '=' in the canonical padded form *)
Definition b32_npad (bs : bytes) : nat :=
  Nat.modulo (8 - Nat.modulo (length (b32_nopad bs)) 8) 8.

Definition b32_padded (bs : bytes) : bytes := b32_nopad bs ++ repeat 61 (b32_npad bs).
