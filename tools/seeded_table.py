#!/usr/bin/env python3
"""seeded_table.py <run log>: markdown table of which checks caught which seeded change (from tools/run_mutants.sh output)"""
import re, sys, json, os
rows = []
for l in open(sys.argv[1]):
    m = re.match(r'(C\d+-[mk]\d+) caught-by:(.*)', l.strip())
    if m:
        rows.append((m.group(1), m.group(2).strip()))
print('| change | what it needs to manifest (see seeded/<id>/notes.md) | caught by (violations with input / all) |')
print('|---|---|---|')
for mid, by in rows:
    notes = os.path.join(os.path.dirname(os.path.dirname(os.path.abspath(__file__))), 'seeded', mid, 'notes.md')
    first = ''
    if os.path.exists(notes):
        for line in open(notes):
            line = line.strip().lstrip('#').strip()
            if line and not line.lower().startswith(('mutant', 'notes')):
                first = line[:110]
                break
    own = mid.split('-')[0]
    parts = by.split()
    parts.sort(key=lambda p: (not p.startswith(own), p))
    print('| %s | %s | %s |' % (mid, first.replace('|', '/'), ' '.join(parts) if parts and parts != ['NONE'] else '**none**'))
