#!/bin/sh
# try_mutant.sh <seeded-id> <check>...: apply the seeded change to a scratch worktree of /repo's HEAD (never to /repo
# itself), run the given checks against it, and undo the change.  Remove the worktree when done with
#   git -C /repo worktree remove --force /var/tmp/mrepo
cd "$(dirname "$0")/.."
id=$1; shift
M=/var/tmp/mrepo
[ -d $M ] || git -C /repo worktree add -q --detach $M HEAD || exit 2
[ "$(git -C $M rev-parse HEAD)" = "$(git -C /repo rev-parse HEAD)" ] || git -C $M checkout -q --detach "$(git -C /repo rev-parse HEAD)"
trap 'git -C $M checkout -q -- .; git -C $M clean -fdq' EXIT INT TERM
git -C $M checkout -q -- .; git -C $M clean -fdq
P="$(pwd)/seeded/$id/patch.diff"; [ -f "$P" ] || P="$(pwd)/harmless/$id/patch.diff"; git -C $M apply "$P" || { echo "$id APPLY-FAILED"; exit 2; }
export VERIF_REPO=$M
for c in "$@"; do
  out=$(bin/check $c 2>&1); rc=$?
  echo "$id $c rc=$rc $(echo "$out" | grep -c '^VIOLATION') violation(s)"
  echo "$out" | grep '^VIOLATION' | head -3 | cut -c1-400
done
