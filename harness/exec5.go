package main

import (
	"fmt"
	"net/url"
	"strings"

	"github.com/ja7ad/otp"
)

// url fields: xScheme,xOpaque,user01,xHost,xPath,xRawPath,force01,xRawQuery,xFragment
func fmtURL(u *url.URL) string {
	return strings.Join([]string{hxs(u.Scheme), hxs(u.Opaque), b01(u.User != nil), hxs(u.Host), hxs(u.Path), hxs(u.RawPath),
		b01(u.ForceQuery), hxs(u.RawQuery), hxs(u.Fragment)}, ",")
}
func parseURLFields(s string) *url.URL {
	if s == "-" {
		return nil
	}
	f := strings.Split(s, ",")
	u := &url.URL{Scheme: string(unhx(f[0])), Opaque: string(unhx(f[1])), Host: string(unhx(f[3])), Path: string(unhx(f[4])),
		RawPath: string(unhx(f[5])), ForceQuery: f[6] == "1", RawQuery: string(unhx(f[7])), Fragment: string(unhx(f[8]))}
	if f[2] == "1" {
		u.User = url.User("u")
	}
	return u
}
func parseURLParam(f []string) otp.URLParam {
	return otp.URLParam{Issuer: string(unhx(f[0])), AccountName: string(unhx(f[1])), Secret: string(unhx(f[2])),
		Digits: otp.Digits(u64(f[3])), Algorithm: otp.Algorithm(u64(f[4])), Period: uint(u64(f[5]))}
}
func fmtURLParam(p *otp.URLParam) string {
	return fmt.Sprintf("up:%s,%s,%d,%s,%d,%d", hxs(p.Issuer), hxs(p.AccountName), p.Period, hxs(p.Secret), p.Digits, p.Algorithm)
}
func genURL(kind string, p otp.URLParam) (*url.URL, error) {
	if kind == "t" {
		return otp.GenerateTOTPURL(p)
	}
	return otp.GenerateHOTPURL(p)
}

func run5(f []string) (string, bool) {
	switch f[0] {
	case "gurl":
		u, err := genURL(f[1], parseURLParam(f[2:]))
		if err != nil {
			return errOut(err), true
		}
		return "url:" + fmtURL(u) + "|" + hxs(u.String()), true
	case "uparse":
		u, err := url.Parse(string(unhx(f[1])))
		if err != nil {
			return "err:" + hxs(err.Error())[1:], true
		}
		return "url:" + fmtURL(u), true
	case "ustr":
		return okStr(parseURLFields(f[1]).String()), true
	case "purl":
		p, err := otp.ParseOTPAuthURL(parseURLFields(f[1]))
		if err != nil {
			return errOut(err), true
		}
		return fmtURLParam(p), true
	case "rturl": // generate -> text -> url.Parse -> ParseOTPAuthURL
		u, err := genURL(f[1], parseURLParam(f[2:]))
		if err != nil {
			return errOut(err), true
		}
		u2, err := url.Parse(u.String())
		if err != nil {
			return "bad:generated-url-does-not-parse", true
		}
		p, err := otp.ParseOTPAuthURL(u2)
		if err != nil {
			return errOut(err), true
		}
		return fmtURLParam(p) + "|" + hxs(u2.Scheme) + "," + hxs(u2.Host), true
	case "digstr":
		return okNum(uint64(otp.DigitsFromStr(string(unhx(f[1]))))), true
	case "algstr":
		return okNum(uint64(otp.AlgorithmFromStr(string(unhx(f[1]))))), true
	case "algname":
		return okStr(otp.Algorithm(u64(f[1])).String()), true
	case "digint":
		return okNum(uint64(otp.Digits(u64(f[1])).Int())), true
	}
	return run6(f)
}
