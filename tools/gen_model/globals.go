package main

import (
	"fmt"
	"go/ast"
	"go/constant"
	"go/types"
	"strings"
)

var constantOne = constant.MakeInt64(1)
var constantZero = constant.MakeInt64(0)

// globals emits the package-level data the translated functions read: constant tables, the HMAC
// constructor table (which hash each entry constructs), the default parameter sets
func (t *tr) globals() string {
	t.globalNames = map[string]string{}
	t.globalTables = map[string]bool{}
	t.globalAssoc = map[string]bool{}
	t.ifaceUsed = map[string]bool{}
	var b strings.Builder
	if msg := t.checkStructs(); msg != "" {
		b.WriteString("(* " + msg + " *)\n")
		t.structsBad = msg
	}
	b.WriteString("Definition atoi_go (s : bytes) : Z * option err := match atoi s with Some v => (v, None) | None => (0%Z, Some (EStd 11 [])) end.\n")
	b.WriteString("Definition lookup_go (raw : bytes) : suite_cfg * bool := match lookup raw known_suites with Some c => (c, true) | None => (zero_cfg, false) end.\n")
	b.WriteString("Definition idxS (l : list bytes) (i : Z) : res bytes := if (i <? 0)%Z then Pnc else match nth_error l (Z.to_nat i) with Some b => Val b | None => Pnc end.\n")
	b.WriteString("Definition parse_uint_go (s : bytes) : N * option err := match parse_uint64 s with Some v => (v, None) | None => (0, Some (EStd 1 [s])) end.\n")
	b.WriteString("Definition hex_decode_go (s : bytes) : bytes * option err := match hex_decode s with Some b => (b, None) | None => ([], Some (EStd 2 [])) end.\n")
	b.WriteString("(* new(big.Int).SetString(s, 10): optional sign, decimal digits; big.Int.Text(16): lower-case hexadecimal, '-' for negatives *)\n")
	b.WriteString("Definition big_parse10 (s : bytes) : Z * bool :=\n  let '(neg, ds) := match s with 45 :: t => (true, t) | 43 :: t => (false, t) | _ => (false, s) end in\n  match ds with [] => (0%Z, false) | _ => if forallb is_dec_digit ds then ((if neg then - Z.of_N (dec_val ds) else Z.of_N (dec_val ds))%Z, true) else (0%Z, false) end.\n")
	b.WriteString("Definition lower_ascii (c : N) : N := if (65 <=? c) && (c <=? 90) then c + 32 else c.\n")
	b.WriteString("Definition big_text16 (z : Z) : bytes := if (z <? 0)%Z then 45 :: map lower_ascii (hex_text (Z.to_N (- z))) else map lower_ascii (hex_text (Z.to_N z)).\n")
	b.WriteString("(* crypto/rand.Read(buf) fills the whole buffer from the source (oracle parameter) and never reports an error *)\n")
	b.WriteString("Definition rand_fill (buf src : bytes) : bytes := firstn (length buf) src ++ skipn (length src) buf.\n")
	b.WriteString("Definition assoc_str (l : list (N * bytes)) (k : N) : bytes := match find (fun kv => N.eqb (fst kv) k) l with Some kv => snd kv | None => [] end.\n")
	b.WriteString("Definition trim_prefix_go (p s : bytes) : bytes := if is_prefix p s then skipn (length p) s else s.\n")
	b.WriteString("Definition splitn2_go (sep : N) (s : bytes) : list bytes := let '(a, b, found) := cut1 sep s in if found then [a; b] else [s].\n")
	b.WriteString("Definition b32_decode_go (s : bytes) : bytes * option err :=\n  let '(bs, o) := b32_decode_string s in (bs, match o with Some off => Some (EBase32 off) | None => None end).\n\n")
	for _, f := range t.pkg.Syntax {
		for _, d := range f.Decls {
			gd, ok := d.(*ast.GenDecl)
			if !ok {
				continue
			}
			for _, sp := range gd.Specs {
				vs, ok := sp.(*ast.ValueSpec)
				if !ok || len(vs.Names) != 1 || len(vs.Values) != 1 {
					continue
				}
				name := vs.Names[0].Name
				switch v := vs.Values[0].(type) {
				case *ast.CompositeLit:
					if s := t.constTable(name, v); s != "" {
						b.WriteString(s)
					} else if s := t.assocTable(name, v); s != "" {
						b.WriteString(s)
					} else if s := t.hashTable(name, v); s != "" {
						b.WriteString(s)
					}
				case *ast.UnaryExpr:
					if cl, ok := v.X.(*ast.CompositeLit); ok {
						if s := t.paramLit(name, cl); s != "" {
							b.WriteString(s)
						}
					}
				}
			}
		}
	}
	b.WriteString("\n")
	return b.String()
}

// an array or slice literal of integer constants
func (t *tr) constTable(name string, v *ast.CompositeLit) string {
	ty := t.info.TypeOf(v)
	var elem types.Type
	switch u := ty.Underlying().(type) {
	case *types.Array:
		elem = u.Elem()
	case *types.Slice:
		elem = u.Elem()
	default:
		return ""
	}
	if !isUnsigned(t.kindOf(elem)) || len(v.Elts) == 0 {
		return ""
	}
	var vals []string
	for _, e := range v.Elts {
		tv, ok := t.info.Types[e]
		if !ok || tv.Value == nil {
			return ""
		}
		vals = append(vals, constant.ToInt(tv.Value).ExactString())
	}
	t.globalNames[name] = "g_" + name
	t.globalTables[name] = true
	return fmt.Sprintf("Definition g_%s : list N := [%s].\n", name, strings.Join(vals, "; "))
}

// hmacPools: the hash each entry's constructor passes to hmac.New
func (t *tr) hashTable(name string, v *ast.CompositeLit) string {
	if name != "hmacPools" {
		return ""
	}
	var algs []string
	for _, e := range v.Elts {
		found := ""
		ast.Inspect(e, func(n ast.Node) bool {
			if c, ok := n.(*ast.CallExpr); ok && exprText(c.Fun) == "hmac.New" && len(c.Args) == 2 {
				switch exprText(c.Args[0]) {
				case "sha1.New":
					found = "SHA1"
				case "sha256.New":
					found = "SHA256"
				case "sha512.New":
					found = "SHA512"
				}
				// the key must be the constructor's own parameter
				if id, ok := c.Args[1].(*ast.Ident); !ok || id.Name != "key" {
					found = ""
				}
			}
			return true
		})
		if found == "" {
			return ""
		}
		algs = append(algs, found)
	}
	t.globalNames[name] = "hmacPools"
	return "Definition hmacPools : list alg := [" + strings.Join(algs, "; ") + "].\n"
}

// &Param{...} with constant fields
func (t *tr) paramLit(name string, cl *ast.CompositeLit) string {
	n, ok := t.info.TypeOf(cl).(*types.Named)
	if !ok || n.Obj().Name() != "Param" {
		return ""
	}
	vals := map[string]string{"Digits": "0", "Period": "0", "Skew": "0", "Algorithm": "0"}
	for _, e := range cl.Elts {
		kv, ok := e.(*ast.KeyValueExpr)
		if !ok {
			return ""
		}
		tv, ok := t.info.Types[kv.Value]
		if !ok || tv.Value == nil {
			return ""
		}
		vals[kv.Key.(*ast.Ident).Name] = constant.ToInt(tv.Value).ExactString()
	}
	t.globalNames[name] = "g_" + name
	return fmt.Sprintf("Definition g_%s : option param := Some (mkParam %s %s %s %s).\n", name, vals["Digits"], vals["Period"], vals["Skew"], vals["Algorithm"])
}

// a map literal from integer constants to string constants (algoStrMap)
func (t *tr) assocTable(name string, v *ast.CompositeLit) string {
	m, ok := t.info.TypeOf(v).Underlying().(*types.Map)
	if !ok || !isUnsigned(t.kindOf(m.Key())) || t.kindOf(m.Elem()) != kBytes || len(v.Elts) == 0 {
		return ""
	}
	var items []string
	for _, e := range v.Elts {
		kv, ok := e.(*ast.KeyValueExpr)
		if !ok {
			return ""
		}
		kt, ok1 := t.info.Types[kv.Key]
		vt, ok2 := t.info.Types[kv.Value]
		if !ok1 || !ok2 || kt.Value == nil || vt.Value == nil {
			return ""
		}
		items = append(items, fmt.Sprintf("(%s%%N, %s)", constant.ToInt(kt.Value).ExactString(), lit(kBytes, vt.Value, e, t)))
	}
	t.globalNames[name] = "g_" + name
	t.globalAssoc[name] = true
	return fmt.Sprintf("Definition g_%s : list (N * bytes) := [%s].\n", name, strings.Join(items, "; "))
}
