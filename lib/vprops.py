"""Property-specific engines beyond the generic correspondence streams."""
import os, re, subprocess

ROOT = os.path.dirname(os.path.dirname(os.path.abspath(__file__)))
COQ = os.path.join(ROOT, 'coq')
WORK = os.path.join(ROOT, 'work')
FLAGS = []
for d in ['Base', 'Hash', 'Generated', 'Spec', 'Model', 'Proofs', 'Properties', 'Findings', 'Extract']:
    FLAGS += ['-Q', d, 'OtpV']


def flow_sites(log):
    """leak sites of the regenerated SSA fact bases, evaluated inside Coq (independent of the theorems)"""
    path = os.path.join(WORK, 'c09_sites.v')
    with open(path, 'w') as f:
        f.write('From Coq Require Import List String.\nFrom OtpV Require Import Flow SsaNative SsaWasm.\n'
                'Definition native_sites := Eval vm_compute in site_names SsaNative.facts (search SsaNative.facts).\n'
                'Definition wasm_sites := Eval vm_compute in site_names SsaWasm.facts (search SsaWasm.facts).\n'
                'Definition sizes := Eval vm_compute in (List.length (f_edges SsaNative.facts), List.length (f_cmps SsaNative.facts), List.length (f_edges SsaWasm.facts), List.length (f_cmps SsaWasm.facts), PS.cardinal (c_hmac (search SsaNative.facts)), PS.cardinal (c_caller (search SsaNative.facts))).\n'
                'Set Printing Width 100000. Set Printing Depth 100000.\nPrint native_sites. Print wasm_sites. Print sizes.\n')
    p = subprocess.run(['coqc'] + FLAGS + [path], cwd=COQ, stdout=subprocess.PIPE, stderr=subprocess.STDOUT, text=True, timeout=900)
    for ext in ('.vo', '.vok', '.vos', '.glob'):
        try:
            os.remove(path[:-2] + ext)
        except OSError:
            pass
    log.write('--- c09 sites\n' + p.stdout[-3000:])
    if p.returncode:
        return None, None, None
    def names(which):
        m = re.search(which + r'\s*=\s*(.*?)\s*:\s*list string', p.stdout, re.S)
        return re.findall(r'"((?:[^"]|"")*)"', m.group(1)) if m else None
    m = re.search(r'sizes\s*=\s*\((.*?)\)\s*:', p.stdout, re.S)
    sizes = [int(x) for x in re.findall(r'\d+', m.group(1))] if m else []
    return names('native_sites'), names('wasm_sites'), sizes


def extra_engines(pid, tier, seed, log, build_state):
    if pid != 'C09':
        return {}
    nat, wasm, sizes = flow_sites(log)
    out = {'violations': [], 'coverage': {}, 'samples': []}
    if nat is None or wasm is None:
        out['violations'].append({'case': '', 'kind': 'the SSA fact bases could not be analysed (Generated/SsaNative.v, SsaWasm.v, Model/Flow.v)', 'no_input': True})
        return out
    for build, sites in (('native', nat), ('js/wasm', wasm)):
        for s_ in sites:
            out['violations'].append({'case': '(flow, %s build) %s' % (build, s_), 'impl': 'HMAC-derived and caller-derived data meet here outside a constant-time comparison',
                                      'model': 'no leak site', 'spec': '-', 'kind': 'leak site in the regenerated SSA facts', 'no_input': True})
    if len(sizes) >= 6:
        out['coverage'] = {'ssa_native_edges': sizes[0], 'ssa_native_comparisons': sizes[1], 'ssa_wasm_edges': sizes[2], 'ssa_wasm_comparisons': sizes[3],
                           'hmac_derived_values_native': sizes[4], 'caller_derived_values_native': sizes[5], 'exhaustive': True}
        out['evaluations'] = sizes[1] + sizes[3]
        out['distinct_nontrivial'] = sizes[4]
        out['rule'] = ' | C09: every comparison and every call leaving the analysed packages in both SSA fact bases is examined (exhaustive over the program text); non-trivial = HMAC-derived values reached'
        out['samples'] = [{'native_edges': sizes[0], 'native_comparisons': sizes[1], 'wasm_edges': sizes[2], 'wasm_comparisons': sizes[3]}]
    out['exhaustive'] = True
    return out
