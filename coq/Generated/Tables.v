(* GENERATED from /repo by /verif/tools/gen_tables — do not edit. *)
From Coq Require Import List NArith ZArith. Import ListNotations. Open Scope N_scope.
Definition mod10 : list N := [0; 10; 100; 1000; 10000; 100000; 1000000; 10000000; 100000000; 1000000000; 10000000000].
Definition mask_offset : N := 15.
Definition mask31 : N := 2147483647.
Definition separator : N := 0.
Definition n_hmac_pools : N := 3.
(* Param{Digits, Period, Skew, Algorithm} *)
Definition default_hotp : N * N * N * N := (6, 0, 2, 0).
Definition default_totp : N * N * N * N := (6, 30, 0, 0).
Definition hotp_max_skew : option N := Some 10.
Definition totp_max_skew : option N := Some 10.
Definition totp_gen_zero_period : option N := Some 30.
Definition totp_val_zero_period : option N := Some 30.
Definition totp_url_zero_period : option N := Some 30.
Definition c_SixDigits : Z := 6.
Definition c_EightDigits : Z := 8.
Definition c_NineDigits : Z := 9.
Definition c_TenDigits : Z := 10.
Definition c_SHA1 : Z := 0.
Definition c_SHA256 : Z := 1.
Definition c_SHA512 : Z := 2.
Definition c_ChallengeNone : Z := 0.
Definition c_ChallengeNumeric08 : Z := 1.
Definition c_ChallengeNumeric10 : Z := 2.
Definition c_ChallengeAlpha08 : Z := 3.
Definition c_ChallengeAlpha10 : Z := 4.
Definition c_ChallengeHex08 : Z := 5.
Definition c_ChallengeHex10 : Z := 6.
Definition c_PasswordNone : Z := 0.
Definition c_PasswordSHA1 : Z := 1.
Definition c_PasswordSHA256 : Z := 2.
Definition c_PasswordSHA512 : Z := 3.
