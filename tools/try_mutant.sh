#!/bin/sh
# try_mutant.sh <seeded-id> <check>...: apply the seeded change to /repo, run the given checks, undo the change.
cd "$(dirname "$0")/.."
id=$1; shift
trap 'git -C /repo checkout -q -- .' EXIT INT TERM
git -C /repo diff --quiet || { echo "/repo is not clean"; exit 2; }
git -C /repo apply "$(pwd)/seeded/$id/patch.diff" || { echo "$id APPLY-FAILED"; exit 2; }
for c in "$@"; do
  out=$(bin/check $c 2>&1); rc=$?
  echo "$id $c rc=$rc $(echo "$out" | grep -c '^VIOLATION') violation(s)"
  echo "$out" | grep '^VIOLATION' | head -3 | cut -c1-400
done
