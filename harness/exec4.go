package main

func run4(f []string) (string, bool) { return "", false }
