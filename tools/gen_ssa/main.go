// gen_ssa: a *syntactic* translation of the SSA form (golang.org/x/tools/go/ssa) of ja7ad/otp into Coq
// data: value-flow edges between SSA values, the places where comparisons and calls to functions
// outside the analysed packages happen, the values that are sources, the control-flow graph.
// All analysis (what is reachable from what, what is a violation) is Gallina code in
// coq/Model/Flow.v; this program decides nothing.
//
//	gen_ssa <repo> <out.v> <ModuleName> native|wasm
package main

import (
	"fmt"
	"go/constant"
	"go/token"
	"go/types"
	"os"
	"path/filepath"
	"sort"
	"strings"

	"golang.org/x/tools/go/packages"
	"golang.org/x/tools/go/ssa"
	"golang.org/x/tools/go/ssa/ssautil"
)

const root = "github.com/ja7ad/otp"

type gen struct {
	prog       *ssa.Program
	fset       *token.FileSet
	ids        map[any]int // ssa.Value / retKey / string keys -> node id
	names      []string    // node id -> description (1-based)
	edges      [][2]int
	srcS       []int
	srcU       []int
	cmps       []cmp    // comparisons: instruction id, operand nodes
	exts       []cmp    // calls leaving the analysed packages (not barriers): call id, argument nodes
	ifs        []ifrec  // branches: function id, block, condition node
	cfg        [][3]int // function id, block, successor block
	inblk      [][4]int // kind (1 cmp, 2 ext call, 3 internal call), instruction id, function id, block
	fnIDs      map[*ssa.Function]int
	fnNames    []string
	fnList     []*ssa.Function
	ours       map[*ssa.Function]bool
	nextIns    int
	insPos     []string
	callees    [][2]int // internal call instruction id -> callee function id
	stores     [][3]int // (function id, address node, is global) for C11/C12: writes
	gwrites    []string
	alias      [][2]int // address / view derivation (for C11, C12)
	paramSrc   []int
	globSrc    []int
	poolGets   [][2]int           // node, function id
	writes     [][3]int           // written object node, instruction id, inside an init function 0/1
	rets       [][3]int           // function id, result node, instruction id naming it
	puts       [][2]int           // instruction id, deferred 0/1
	implicit   [][2]int           // branch condition node -> phi / returned value whose choice it controls (control dependence)
	controlled [][2]int           // branch condition node, placed instruction id it controls
	precise    map[int]bool       // nodes whose length shadow is fed by explicit rules (no fallback node -> length)
	ourCall    map[ssa.Value]bool // calls whose callees are inside the analysed packages
	// call-site sensitivity for scalar leaf helpers (no calls, no stores, scalar parameters and results): each static
	// call gets its own copy of the helper's nodes, so data passed at one call site does not come back at another
	ctx        int
	ctxFn      *ssa.Function
	nextCtx    int
	callCtx    map[ssa.Instruction]int
	cloneMemo  map[*ssa.Function]bool
	inblkStart int
	// field sensitivity for the structs of the analysed packages: a node of struct (or pointer-to-struct) type has a
	// node per field besides itself; what arrives at the struct as a whole reaches every field, what is stored in one
	// field reaches that field and the struct as a whole, and a copy of a struct copies field by field
	nfields map[int]int
	lenOf   map[int]int // length-shadow node -> the node whose lengths it stands for
}
type fieldKey struct{ n, i int }
type winKey struct{ n int }

// F: field i of struct node n
func (g *gen) F(n, i int) int {
	return g.node(fieldKey{n, i}, fmt.Sprintf("field %d of %s", i, g.names[n-1]))
}

// in: where data arriving at node n goes: at a struct it arrives at the whole, and so at every field
func (g *gen) in(n int) int {
	if n != 0 && g.nfields[n] > 0 {
		return g.node(winKey{n}, "whole of "+g.names[n-1])
	}
	return n
}

// ourStruct: the number of fields when t is (a pointer to) a struct type declared in the analysed packages
func ourStruct(t types.Type) int {
	if p, ok := t.Underlying().(*types.Pointer); ok {
		t = p.Elem()
	}
	n, ok := t.(*types.Named)
	if !ok || n.Obj().Pkg() == nil || !strings.HasPrefix(n.Obj().Pkg().Path(), root) {
		return 0
	}
	st, ok := n.Underlying().(*types.Struct)
	if !ok || st.NumFields() == 0 || st.NumFields() > 16 {
		return 0
	}
	return st.NumFields()
}

// register a struct node: whole -> node, whole -> field, field -> node
func (g *gen) structNode(id int, t types.Type) {
	if id == 0 || g.nfields[id] != 0 {
		return
	}
	k := ourStruct(t)
	if k == 0 {
		return
	}
	g.nfields[id] = k
	w := g.in(id)
	g.edges = append(g.edges, [2]int{w, id}, [2]int{g.L(w), g.L(id)})
	for i := 0; i < k; i++ {
		f := g.F(id, i)
		g.edges = append(g.edges, [2]int{w, f}, [2]int{f, id}, [2]int{g.L(w), g.L(f)}, [2]int{g.L(f), g.L(id)})
	}
}

type ctxKey struct {
	v   ssa.Value
	ctx int
}
type cmp struct {
	id   int
	args []int
	what string
}
type ifrec struct{ fn, blk, cond int }
type retKey struct {
	fn  *ssa.Function
	i   int
	ctx int
}

// ret: the node of result i of fn, in the copy being built when fn is the helper being copied
func (g *gen) ret(fn *ssa.Function, i int) int {
	c := 0
	if g.ctx != 0 && fn == g.ctxFn {
		c = g.ctx
	}
	return g.retIn(fn, i, c)
}
func (g *gen) retIn(fn *ssa.Function, i, c int) int {
	d := fmt.Sprintf("%s result %d", fn.String(), i)
	if c != 0 {
		d += fmt.Sprintf(" [copy %d]", c)
	}
	id := g.node(retKey{fn, i, c}, d)
	if i < fn.Signature.Results().Len() {
		g.structNode(id, fn.Signature.Results().At(i).Type())
	}
	return id
}

func scalarType(t types.Type) bool {
	b, ok := t.Underlying().(*types.Basic)
	return ok && b.Info()&(types.IsInteger|types.IsBoolean|types.IsFloat) != 0
}

// cloneable: a helper inside the analysed packages that only computes scalars from scalars
func (g *gen) cloneable(fn *ssa.Function) bool {
	if v, ok := g.cloneMemo[fn]; ok {
		return v
	}
	ok := g.ours[fn] && fn.Blocks != nil && len(fn.FreeVars) == 0 && fn.Parent() == nil && len(fn.AnonFuncs) == 0
	if ok {
		for _, p := range fn.Params {
			ok = ok && scalarType(p.Type())
		}
		rs := fn.Signature.Results()
		for i := 0; i < rs.Len(); i++ {
			ok = ok && scalarType(rs.At(i).Type())
		}
	}
	if ok {
		for _, b := range fn.Blocks {
			for _, in := range b.Instrs {
				switch x := in.(type) {
				case *ssa.Call:
					if _, isB := x.Call.Value.(*ssa.Builtin); !isB {
						ok = false
					}
				case *ssa.Go, *ssa.Defer, *ssa.Store, *ssa.MakeClosure, *ssa.MapUpdate, *ssa.Send, *ssa.Alloc, *ssa.MakeSlice, *ssa.MakeMap, *ssa.MakeChan, *ssa.Select:
					ok = false
				}
			}
		}
	}
	g.cloneMemo[fn] = ok
	return ok
}

// ctxFor: the copy number of the helper called by this instruction (0: the call shares the helper's one instance)
func (g *gen) ctxFor(in ssa.Instruction, callee *ssa.Function) int {
	if g.ctx != 0 || !g.cloneable(callee) {
		return 0
	}
	if c, ok := g.callCtx[in]; ok {
		return c
	}
	g.nextCtx++
	g.callCtx[in] = g.nextCtx
	return g.nextCtx
}

func (g *gen) node(k any, desc string) int {
	if id, ok := g.ids[k]; ok {
		return id
	}
	g.names = append(g.names, desc)
	id := len(g.names)
	g.ids[k] = id
	return id
}
func (g *gen) pos(p token.Pos) string {
	if !p.IsValid() {
		return "-"
	}
	q := g.fset.Position(p)
	return fmt.Sprintf("%s:%d", filepath.Base(q.Filename), q.Line)
}
func (g *gen) val(v ssa.Value) int {
	switch x := v.(type) {
	case *ssa.Const:
		return 0 // constants carry no data of interest
	case *ssa.Function:
		return 0
	case *ssa.Builtin:
		return 0
	case *ssa.Global:
		id := g.node(x, "global "+x.String())
		g.structNode(id, x.Type())
		return id
	}
	fn := ""
	if p := v.Parent(); p != nil {
		fn = p.String() + " "
		if g.ctx != 0 && p == g.ctxFn {
			id := g.node(ctxKey{v, g.ctx}, fmt.Sprintf("%s%s @%s [copy %d]", fn, v.Name(), g.pos(v.Pos()), g.ctx))
			g.structNode(id, v.Type())
			return id
		}
	}
	id := g.node(v, fn+v.Name()+" @"+g.pos(v.Pos()))
	g.structNode(id, v.Type())
	return id
}
func (g *gen) edge(from, to int) {
	if from != 0 && to != 0 && from != to {
		if n, isLen := g.lenOf[to]; isLen && g.nfields[n] > 0 {
			to = g.L(g.in(n)) // lengths arriving at a struct as a whole
		} else {
			to = g.in(to)
		}
		g.edges = append(g.edges, [2]int{from, to})
	}
}

// Length shadows.  A string or slice value has a length besides its content.  L(n) stands for the length
// (and, for memory and aggregates, the lengths of the strings and slices held there) of node n.  The length is
// part of the value: L(n) -> n always.  Conversely the content determines the length only by default: a node
// gets the fallback edge n -> L(n) unless the instruction that produces it says exactly where its length comes
// from (slicing: the bounds; make: the size; copies, conversions between string and []byte, loads, stores,
// parameters, results, phis: the length of what is copied).  len() and cap() read L(x), not x.
type lenKey struct{ n int }

func (g *gen) L(n int) int {
	if n == 0 {
		return 0
	}
	id := g.node(lenKey{n}, "length of "+g.names[n-1])
	g.lenOf[id] = n
	return id
}

// move: v is a copy of x (content and length)
func (g *gen) move(x, v int) {
	if x != 0 && v != 0 && x != v && g.nfields[x] > 0 && g.nfields[x] == g.nfields[v] {
		// a struct copied: the whole to the whole, each field to the same field
		g.edges = append(g.edges, [2]int{g.in(x), g.in(v)}, [2]int{g.L(g.in(x)), g.L(g.in(v))})
		for i := 0; i < g.nfields[x]; i++ {
			g.edges = append(g.edges, [2]int{g.F(x, i), g.F(v, i)}, [2]int{g.L(g.F(x, i)), g.L(g.F(v, i))})
		}
		return
	}
	g.edge(x, v)
	g.edge(g.L(x), g.L(v))
}

func (g *gen) exact(v int) int {
	if v != 0 {
		g.precise[v] = true
	}
	return v
}

// hasLength: values of this type have (or may hold something that has) a length
func hasLength(t types.Type) bool {
	if b, ok := t.Underlying().(*types.Basic); ok {
		return b.Info()&types.IsString != 0 || b.Kind() == types.UnsafePointer
	}
	return true
}

func isPtrLike(t types.Type) bool {
	switch u := t.Underlying().(type) {
	case *types.Pointer:
		return true
	case *types.Basic:
		return u.Kind() == types.UnsafePointer
	}
	return false
}

func (g *gen) ins(p token.Pos, fn *ssa.Function, what string) int {
	g.nextIns++
	g.insPos = append(g.insPos, fn.String()+" "+what+" @"+g.pos(p))
	return g.nextIns
}

func isOurs(fn *ssa.Function) bool {
	if fn == nil {
		return false
	}
	pkg := fn.Package()
	if pkg == nil && fn.Parent() != nil {
		return isOurs(fn.Parent())
	}
	if pkg == nil {
		if o := fn.Object(); o != nil && o.Pkg() != nil {
			return strings.HasPrefix(o.Pkg().Path(), root)
		}
		return false
	}
	return strings.HasPrefix(pkg.Pkg.Path(), root) || pkg.Pkg.Path() == "command-line-arguments" || pkg.Pkg.Name() == "main" && strings.Contains(pkg.Pkg.Path(), "otp")
}

func refType(t types.Type) bool {
	switch u := t.Underlying().(type) {
	case *types.Pointer, *types.Slice, *types.Map, *types.Chan, *types.Interface, *types.Signature:
		return true
	case *types.Struct:
		for i := 0; i < u.NumFields(); i++ {
			if refType(u.Field(i).Type()) {
				return true
			}
		}
	case *types.Array:
		return refType(u.Elem())
	}
	return false
}

// viewType: a value of this type may be a view of (or point to) memory
func viewType(t types.Type) bool {
	if b, ok := t.Underlying().(*types.Basic); ok {
		return b.Info()&types.IsString != 0 || b.Kind() == types.UnsafePointer
	}
	return refType(t)
}

func (g *gen) aedge(from, to int) {
	if from != 0 && to != 0 && from != to {
		g.alias = append(g.alias, [2]int{from, to})
	}
}

type contentKey struct{ n int }

// content(n): what the memory that n points to (or views) holds
func (g *gen) content(n int) int {
	if n == 0 {
		return 0
	}
	return g.node(contentKey{n}, "memory behind "+g.names[n-1])
}

// derive: v is derived from x by address arithmetic / conversion: it points into the same memory
func (g *gen) derive(x, v int) {
	g.aedge(x, v)
	g.aedge(g.content(x), g.content(v))
	g.aedge(g.content(v), g.content(x))
}

func textType(t types.Type) bool {
	switch u := t.Underlying().(type) {
	case *types.Basic:
		return u.Info()&types.IsString != 0
	case *types.Slice:
		b, ok := u.Elem().Underlying().(*types.Basic)
		return ok && b.Kind() == types.Byte
	}
	return false
}

// calleeKind classifies a call that leaves the analysed packages
func barrier(name string) bool {
	switch name {
	case "crypto/subtle.ConstantTimeCompare", "crypto/subtle.ConstantTimeEq", "crypto/subtle.ConstantTimeByteEq", "crypto/hmac.Equal",
		"crypto/hmac.New", "(hash.Hash).Write", "(io.Writer).Write", "(hash.Hash).Reset", "(hash.Hash).Size", "(hash.Hash).BlockSize":
		return true
	}
	return false
}

func (g *gen) doFunc(fn *ssa.Function) {
	fid := g.fnIDs[fn]
	exported := fn.Object() != nil && fn.Object().Exported() && fn.Parent() == nil && fn.Signature.Recv() == nil && fn.Pkg != nil && fn.Pkg.Pkg.Path() == root
	expAny := fn.Object() != nil && fn.Object().Exported() && fn.Parent() == nil && fn.Pkg != nil && fn.Pkg.Pkg.Path() == root && !strings.HasPrefix(fn.Name(), "Verif")
	if g.ctx != 0 {
		exported, expAny = false, false
	}
	start := len(g.inblk)
	for _, p := range fn.Params {
		id := g.val(p)
		g.exact(id)
		if exported && textType(p.Type()) {
			g.srcU = append(g.srcU, id, g.L(id))
		}
		if expAny && refType(p.Type()) {
			g.paramSrc = append(g.paramSrc, id, g.content(id))
		}
	}
	for _, fv := range fn.FreeVars {
		g.exact(g.val(fv))
	}
	for _, b := range fn.Blocks {
		for _, s := range b.Succs {
			g.cfg = append(g.cfg, [3]int{fid, b.Index + 1, s.Index + 1})
		}
		for _, in := range b.Instrs {
			g.doInstr(fn, fid, b, in)
		}
	}
	g.inblkStart = start
	g.controlDeps(fn, fid)
}

// controlDeps: post-dominators by the iterative set algorithm, control dependence (Y depends on branch
// block X iff Y post-dominates a successor of X and does not strictly post-dominate X), closed transitively.
func (g *gen) controlDeps(fn *ssa.Function, fid int) {
	n := len(fn.Blocks)
	if n == 0 {
		return
	}
	exit := n // virtual exit
	succ := make([][]int, n+1)
	for _, b := range fn.Blocks {
		for _, s := range b.Succs {
			succ[b.Index] = append(succ[b.Index], s.Index)
		}
		if len(b.Succs) == 0 {
			succ[b.Index] = []int{exit}
		}
	}
	full := func() []bool {
		x := make([]bool, n+1)
		for i := range x {
			x[i] = true
		}
		return x
	}
	pdom := make([][]bool, n+1)
	for i := 0; i <= n; i++ {
		pdom[i] = full()
	}
	pdom[exit] = make([]bool, n+1)
	pdom[exit][exit] = true
	for changed := true; changed; {
		changed = false
		for b := n - 1; b >= 0; b-- {
			nw := full()
			for _, s := range succ[b] {
				for i := range nw {
					nw[i] = nw[i] && pdom[s][i]
				}
			}
			nw[b] = true
			for i := range nw {
				if nw[i] != pdom[b][i] {
					changed = true
				}
			}
			pdom[b] = nw
		}
	}
	// direct control dependence cd[x] = blocks depending on branch block x
	cd := make([][]bool, n)
	for x := 0; x < n; x++ {
		cd[x] = make([]bool, n)
		if len(succ[x]) < 2 {
			continue
		}
		for y := 0; y < n; y++ {
			strict := pdom[x][y] && y != x
			if strict {
				continue
			}
			for _, s := range succ[x] {
				if s < n && pdom[s][y] {
					cd[x][y] = true
				}
			}
		}
	}
	for k := 0; k < n; k++ { // transitive closure
		for x := 0; x < n; x++ {
			for y := 0; y < n; y++ {
				if cd[x][k] && cd[k][y] {
					cd[x][y] = true
				}
			}
		}
	}
	cond := make([]int, n)
	for _, b := range fn.Blocks {
		if len(b.Instrs) > 0 {
			if ifi, ok := b.Instrs[len(b.Instrs)-1].(*ssa.If); ok {
				cond[b.Index] = g.val(ifi.Cond)
			}
		}
	}
	dependsOn := func(y int) []int { // conditions the execution of block y depends on
		var cs []int
		for x := 0; x < n; x++ {
			if cd[x][y] && cond[x] != 0 {
				cs = append(cs, cond[x])
			}
		}
		return cs
	}
	for _, b := range fn.Blocks {
		for _, in := range b.Instrs {
			switch x := in.(type) {
			case *ssa.Phi:
				for _, p := range b.Preds {
					cs := dependsOn(p.Index)
					if cond[p.Index] != 0 && len(p.Succs) >= 2 {
						cs = append(cs, cond[p.Index])
					}
					for _, c := range cs {
						g.implicit = append(g.implicit, [2]int{c, g.in(g.val(x))})
						if hasLength(x.Type()) {
							g.implicit = append(g.implicit, [2]int{c, g.L(g.val(x))})
						}
					}
				}
			case *ssa.Return:
				for i := range x.Results {
					rn := g.ret(fn, i)
					for _, c := range dependsOn(b.Index) {
						g.implicit = append(g.implicit, [2]int{c, g.in(rn)})
						if hasLength(x.Results[i].Type()) {
							g.implicit = append(g.implicit, [2]int{c, g.L(rn)})
						}
					}
				}
			}
		}
	}
	for _, pl := range g.inblk[g.inblkStart:] {
		if pl[2] == fid {
			for _, c := range dependsOn(pl[3] - 1) {
				g.controlled = append(g.controlled, [2]int{c, pl[1]})
			}
		}
	}
}

func (g *gen) callCommon(fn *ssa.Function, fid int, b *ssa.BasicBlock, in ssa.Instruction, c *ssa.CallCommon, result ssa.Value) {
	var args []ssa.Value
	if c.IsInvoke() {
		args = append(args, c.Value)
	}
	args = append(args, c.Args...)
	res := 0
	if result != nil {
		res = g.val(result)
	}
	// possible callees inside the analysed packages
	var callees []*ssa.Function
	name := ""
	if sc := c.StaticCallee(); sc != nil {
		name = sc.String()
		if g.ours[sc] {
			callees = []*ssa.Function{sc}
		}
	} else if c.IsInvoke() {
		name = "(" + c.Value.Type().String() + ")." + c.Method.Name()
		for _, f := range g.fnList {
			if f.Signature.Recv() != nil && f.Name() == c.Method.Name() && types.Identical(dropRecv(f.Signature), c.Method.Type()) {
				callees = append(callees, f)
			}
		}
	} else if _, isB := c.Value.(*ssa.Builtin); isB {
		name = "builtin " + c.Value.Name()
	} else {
		name = "dynamic " + c.Value.Type().String()
		sig, _ := c.Value.Type().Underlying().(*types.Signature)
		for _, f := range g.fnList {
			if sig != nil && f.Signature.Recv() == nil && types.Identical(f.Signature, sig) {
				callees = append(callees, f)
			}
		}
		// the function value itself may carry data (closure bindings): its node flows to the result
		g.edge(g.val(c.Value), res)
	}
	sort.Slice(callees, func(i, j int) bool { return g.fnIDs[callees[i]] < g.fnIDs[callees[j]] })
	for _, callee := range callees {
		iid := g.ins(in.Pos(), fn, "call "+callee.String())
		g.inblk = append(g.inblk, [4]int{3, iid, fid, b.Index + 1})
		g.callees = append(g.callees, [2]int{iid, g.fnIDs[callee]})
		ps := callee.Params
		cc := 0
		if len(callees) == 1 && c.StaticCallee() == callee {
			cc = g.ctxFor(in, callee)
		}
		var an []int
		for _, a := range args {
			an = append(an, g.val(a))
		}
		if cc != 0 { // build this call's own copy of the helper
			g.ctx, g.ctxFn = cc, callee
			g.doFunc(callee)
		}
		for i := range args {
			if i < len(ps) {
				g.move(an[i], g.val(ps[i]))
			}
		}
		g.ctx, g.ctxFn = 0, nil
		nres := callee.Signature.Results().Len()
		for i := 0; i < nres; i++ {
			g.move(g.exact(g.retIn(callee, i, cc)), g.exact(g.tupleSlot(result, i, nres)))
		}
	}
	if len(callees) > 0 {
		if result != nil {
			g.ourCall[result] = true
		}
		return
	}
	// a call that leaves the analysed packages
	switch {
	case name == "builtin copy":
		g.edge(g.val(args[1]), g.val(args[0]))
		g.edge(g.L(g.val(args[0])), res) // the number of elements copied
		g.edge(g.L(g.val(args[1])), res)
		return
	case name == "builtin len" || name == "builtin cap":
		g.edge(g.L(g.val(args[0])), res)
		return
	case strings.HasPrefix(name, "builtin "):
		for _, a := range args {
			g.edge(g.val(a), res)
		}
		return
	}
	short := name
	if sc := c.StaticCallee(); sc != nil && sc.Object() != nil && sc.Object().Pkg() != nil {
		short = sc.Object().Pkg().Path() + "." + sc.Name()
		if r := sc.Signature.Recv(); r != nil {
			short = "(" + r.Type().String() + ")." + sc.Name()
		}
	}
	if c.IsInvoke() && c.Method.Name() == "Sum" && strings.HasSuffix(c.Value.Type().String(), "hash.Hash") {
		g.srcS = append(g.srcS, res) // the HMAC output
		return
	}
	if barrier(short) || barrier(name) {
		return
	}
	var an []int
	for _, a := range args {
		an = append(an, g.val(a))
	}
	iid := g.ins(in.Pos(), fn, "call "+short)
	g.exts = append(g.exts, cmp{iid, an, short})
	g.inblk = append(g.inblk, [4]int{2, iid, fid, b.Index + 1})
	// unknown code: every argument may flow to the result and into every argument that is a reference
	resIsErr := result != nil && isErrorType(result.Type())
	for _, a := range args {
		if !resIsErr {
			g.edge(g.val(a), res)
		}
		if outputSink(short) {
			continue
		}
		for _, d := range args {
			if d != a && refType(d.Type()) {
				g.edge(g.val(a), g.val(d))
				g.edge(g.val(a), g.L(g.val(d))) // unknown code may also decide the lengths of what it fills in
			}
		}
	}
	if strings.Contains(short, "RequestCtx).PostBody") || strings.Contains(short, "Args).Peek") {
		g.srcU = append(g.srcU, res)
	}
}

func dropRecv(s *types.Signature) *types.Signature {
	return types.NewSignatureType(nil, nil, nil, s.Params(), s.Results(), s.Variadic())
}

// node standing for component i of a call's result (the call value itself when there is one result)
func (g *gen) tupleSlot(result ssa.Value, i, n int) int {
	if result == nil {
		return 0
	}
	if n == 1 {
		return g.val(result)
	}
	return g.node(retKey{nil, g.val(result)*16 + i, 0}, fmt.Sprintf("component %d of %s", i, g.names[g.val(result)-1]))
}

func (g *gen) doInstr(fn *ssa.Function, fid int, b *ssa.BasicBlock, in ssa.Instruction) {
	g.aliasInstr(fn, fid, in)
	switch x := in.(type) {
	case *ssa.BinOp:
		v := g.val(x)
		g.edge(g.val(x.X), v)
		g.edge(g.val(x.Y), v)
		switch x.Op {
		case token.EQL, token.NEQ, token.LSS, token.LEQ, token.GTR, token.GEQ:
			if isNil(x.X) || isNil(x.Y) {
				break // a nil check compares one word
			}
			iid := g.ins(x.Pos(), fn, "compare "+x.Op.String())
			g.cmps = append(g.cmps, cmp{iid, []int{g.val(x.X), g.val(x.Y)}, x.Op.String()})
			g.inblk = append(g.inblk, [4]int{1, iid, fid, b.Index + 1})
		}
	case *ssa.UnOp:
		if x.Op == token.MUL { // a load: a copy of what is stored there
			g.move(g.val(x.X), g.exact(g.val(x)))
		} else {
			g.edge(g.val(x.X), g.val(x))
		}
	case *ssa.Call:
		g.callCommon(fn, fid, b, in, &x.Call, x)
	case *ssa.Go:
		g.callCommon(fn, fid, b, in, &x.Call, nil)
	case *ssa.Defer:
		g.callCommon(fn, fid, b, in, &x.Call, nil)
	case *ssa.Extract:
		if call, ok := x.Tuple.(*ssa.Call); ok {
			n := call.Call.Signature().Results().Len()
			if g.ourCall[call] {
				g.move(g.tupleSlot(call, x.Index, n), g.exact(g.val(x)))
			} else {
				g.edge(g.tupleSlot(call, x.Index, n), g.val(x))
			}
			if !isErrorType(x.Type()) { // an error value reported by code outside the analysed packages carries no data of interest
				g.edge(g.val(call), g.val(x)) // for calls leaving the analysed packages the tuple is one node
			}
		} else {
			g.edge(g.val(x.Tuple), g.val(x))
		}
	case *ssa.Phi:
		g.exact(g.val(x))
		for _, e := range x.Edges {
			g.move(g.val(e), g.val(x))
		}
	case *ssa.Store:
		if hasLength(x.Val.Type()) {
			g.move(g.val(x.Val), g.val(x.Addr))
		} else {
			g.edge(g.val(x.Val), g.val(x.Addr))
		}
		_, isG := x.Addr.(*ssa.Global)
		g.stores = append(g.stores, [3]int{fid, g.val(x.Addr), b2i(isG)})
		if isG && fn.Name() != "init" {
			g.gwrites = append(g.gwrites, fn.String()+" writes "+x.Addr.String()+" @"+g.pos(x.Pos()))
		}
	case *ssa.MapUpdate:
		{
			// inserting compares the key with the keys already there
			iid := g.ins(x.Pos(), fn, "compare map-update")
			g.cmps = append(g.cmps, cmp{iid, []int{g.val(x.Map), g.val(x.Key)}, "map-update"})
			g.inblk = append(g.inblk, [4]int{1, iid, fid, b.Index + 1})
		}
		g.edge(g.val(x.Key), g.val(x.Map))
		g.edge(g.val(x.Value), g.val(x.Map))
	case *ssa.Send:
		g.edge(g.val(x.X), g.val(x.Chan))
	case *ssa.FieldAddr:
		g.exact(g.val(x))
		if b := g.val(x.X); g.nfields[b] > x.Field {
			f := g.F(b, x.Field)
			g.edge(f, g.val(x)) // the address of the field stands for the field
			g.edge(g.val(x), f)
			g.edge(g.L(f), g.L(g.val(x)))
			g.edge(g.L(g.val(x)), g.L(f))
		} else {
			g.move(g.val(x.X), g.val(x))
			g.move(g.val(x), g.val(x.X))
		}
	case *ssa.IndexAddr:
		g.exact(g.val(x))
		g.move(g.val(x.X), g.val(x))
		g.move(g.val(x), g.val(x.X))
		// the index selects an element; it is not copied (table look-ups keyed by data are not tracked)
	case *ssa.Slice:
		v := g.exact(g.val(x))
		g.edge(g.val(x.X), v)
		g.edge(v, g.val(x.X))
		// the length of a slice expression is decided by its bounds and, where one is omitted, by the operand's length
		for _, bnd := range []ssa.Value{x.Low, x.High, x.Max} {
			if bnd != nil {
				g.edge(g.val(bnd), g.L(v))
			}
		}
		g.edge(g.L(g.val(x.X)), g.L(v))
	case *ssa.Field:
		if b := g.val(x.X); g.nfields[b] > x.Field {
			g.edge(g.F(b, x.Field), g.exact(g.val(x)))
			g.edge(g.L(g.F(b, x.Field)), g.L(g.val(x)))
		} else {
			g.move(g.val(x.X), g.exact(g.val(x)))
		}
	case *ssa.Index:
		g.edge(g.val(x.X), g.val(x))
	case *ssa.Lookup:
		g.edge(g.val(x.X), g.val(x))
		if _, isMap := x.X.Type().Underlying().(*types.Map); isMap {
			// a map look-up hashes the key and compares it with the stored keys (an early-exit memequal): a comparison
			// of the index with what the map holds
			iid := g.ins(x.Pos(), fn, "compare map-lookup")
			g.cmps = append(g.cmps, cmp{iid, []int{g.val(x.X), g.val(x.Index)}, "map-lookup"})
			g.inblk = append(g.inblk, [4]int{1, iid, fid, b.Index + 1})
		}
	case *ssa.Convert:
		if textType(x.X.Type()) && textType(x.Type()) || isPtrLike(x.X.Type()) && isPtrLike(x.Type()) {
			g.move(g.val(x.X), g.exact(g.val(x))) // string <-> []byte, pointer <-> unsafe.Pointer: same bytes, same length
		} else {
			g.edge(g.val(x.X), g.val(x))
		}
	case *ssa.ChangeType:
		g.move(g.val(x.X), g.exact(g.val(x)))
	case *ssa.ChangeInterface:
		g.move(g.val(x.X), g.exact(g.val(x)))
	case *ssa.MakeInterface:
		g.move(g.val(x.X), g.exact(g.val(x)))
	case *ssa.SliceToArrayPointer:
		g.edge(g.val(x.X), g.val(x))
		g.edge(g.val(x), g.val(x.X))
	case *ssa.MultiConvert:
		g.edge(g.val(x.X), g.val(x))
	case *ssa.TypeAssert:
		g.move(g.val(x.X), g.exact(g.val(x)))
	case *ssa.Range:
		g.edge(g.val(x.X), g.val(x))
	case *ssa.Next:
		g.edge(g.val(x.Iter), g.val(x))
	case *ssa.Select:
		for _, st := range x.States {
			g.edge(g.val(st.Chan), g.val(x))
			if st.Send != nil {
				g.edge(g.val(st.Send), g.val(st.Chan))
			}
		}
	case *ssa.MakeClosure:
		f := x.Fn.(*ssa.Function)
		for i, bnd := range x.Bindings {
			g.move(g.val(bnd), g.val(f.FreeVars[i]))
			g.edge(g.val(bnd), g.val(x))
		}
	case *ssa.Return:
		for i, r := range x.Results {
			rn := g.exact(g.ret(fn, i))
			g.move(g.val(r), rn)
		}
	case *ssa.If:
		g.ifs = append(g.ifs, ifrec{fid, b.Index + 1, g.val(x.Cond)})
	case *ssa.Alloc, *ssa.MakeSlice, *ssa.MakeMap, *ssa.MakeChan, *ssa.Jump, *ssa.Panic, *ssa.RunDefers, *ssa.DebugRef:
		if v, ok := in.(ssa.Value); ok {
			g.val(v)
			if ms, ok := in.(*ssa.MakeSlice); ok {
				g.edge(g.val(ms.Len), g.val(ms))
				g.edge(g.val(ms.Len), g.L(g.exact(g.val(ms))))
				g.edge(g.val(ms.Cap), g.L(g.val(ms)))
			}
			if al, ok := in.(*ssa.Alloc); ok {
				g.exact(g.val(al)) // what a fresh variable holds is what was stored into it
			}
		}
	default:
		fmt.Fprintf(os.Stderr, "gen_ssa: unhandled instruction %T in %s\n", in, fn)
		os.Exit(3)
	}
}

// cN: the content node n levels below x
func (g *gen) cN(x, n int) int {
	for i := 0; i < n && x != 0; i++ {
		x = g.content(x)
	}
	return x
}

// held: the reference v is what the memory at addr holds (a store, a map insertion, a load, a look-up): the memory
// behind v is the memory behind what addr holds, level by level
func (g *gen) held(v, addr int) {
	for k := 1; k <= 3; k++ {
		g.aedge(g.cN(v, k), g.cN(addr, k+1))
		g.aedge(g.cN(addr, k+1), g.cN(v, k))
	}
}

// chunked: a long list as the concatenation of short ones (Coq's parser overflows its stack on one literal of tens of
// thousands of elements); duplicates are dropped
func chunked(name, typ string, items []string) string {
	seen := map[string]bool{}
	var uniq []string
	for _, it := range items {
		if !seen[it] {
			seen[it] = true
			uniq = append(uniq, it)
		}
	}
	const size = 2000
	if len(uniq) <= size {
		return fmt.Sprintf("Definition %s : list %s := [%s].\n", name, typ, strings.Join(uniq, "; "))
	}
	var b strings.Builder
	var parts []string
	for i := 0; i*size < len(uniq); i++ {
		hi := (i + 1) * size
		if hi > len(uniq) {
			hi = len(uniq)
		}
		part := fmt.Sprintf("%s_c%d", name, i)
		parts = append(parts, part)
		fmt.Fprintf(&b, "Definition %s : list %s := [%s].\n", part, typ, strings.Join(uniq[i*size:hi], "; "))
	}
	fmt.Fprintf(&b, "Definition %s : list %s := %s.\n", name, typ, strings.Join(parts, " ++ "))
	return b.String()
}

func isFuncType(t types.Type) bool {
	_, ok := t.Underlying().(*types.Signature)
	return ok
}

// same: x and v are the same function value (a closure has an identity: whoever holds it reaches its captured
// variables).  Besides "v is derived from x" this records the way back, so that a closure kept in memory that outlives
// the call — a package variable, a table built at start-up — makes the variables it captured shared memory too.
func (g *gen) same(x, v int, t types.Type) {
	if isFuncType(t) {
		g.aedge(v, x)
	}
}

// aliasInstr: which values are views of / pointers into the same memory, and what is written
func (g *gen) aliasInstr(fn *ssa.Function, fid int, in ssa.Instruction) {
	isInit := b2i(fn.Name() == "init" || strings.HasPrefix(fn.Name(), "init#") || strings.HasPrefix(fn.Name(), "init$"))
	wr := func(target ssa.Value, what string) {
		if t := g.val(target); t != 0 {
			g.writes = append(g.writes, [3]int{t, g.ins(in.Pos(), fn, what), isInit})
		}
	}
	switch x := in.(type) {
	case *ssa.FieldAddr:
		g.derive(g.val(x.X), g.val(x))
	case *ssa.IndexAddr:
		g.derive(g.val(x.X), g.val(x))
	case *ssa.Slice:
		g.derive(g.val(x.X), g.val(x))
	case *ssa.UnOp:
		if x.Op == token.MUL && viewType(x.Type()) {
			g.aedge(g.content(g.val(x.X)), g.val(x)) // a pointer / slice / string loaded from that memory
			g.held(g.val(x), g.val(x.X))
		}
	case *ssa.Phi:
		for _, e := range x.Edges {
			g.derive(g.val(e), g.val(x))
			g.same(g.val(e), g.val(x), x.Type())
		}
	case *ssa.Convert:
		g.derive(g.val(x.X), g.val(x))
	case *ssa.ChangeType:
		g.derive(g.val(x.X), g.val(x))
		g.same(g.val(x.X), g.val(x), x.Type())
	case *ssa.ChangeInterface:
		g.derive(g.val(x.X), g.val(x))
	case *ssa.MakeInterface:
		if viewType(x.X.Type()) {
			g.derive(g.val(x.X), g.val(x))
			g.same(g.val(x.X), g.val(x), x.X.Type())
		}
	case *ssa.TypeAssert:
		g.derive(g.val(x.X), g.val(x))
	case *ssa.SliceToArrayPointer:
		g.derive(g.val(x.X), g.val(x))
	case *ssa.Field:
		if viewType(x.Type()) {
			g.aedge(g.val(x.X), g.val(x))
		}
	case *ssa.Index:
		if viewType(x.Type()) {
			g.aedge(g.val(x.X), g.val(x))
		}
	case *ssa.Lookup:
		if viewType(x.Type()) {
			g.aedge(g.val(x.X), g.val(x))
			g.aedge(g.content(g.val(x.X)), g.val(x))
			g.held(g.val(x), g.val(x.X))
		}
	case *ssa.Extract:
		if viewType(x.Type()) {
			if call, ok := x.Tuple.(*ssa.Call); ok {
				n := call.Call.Signature().Results().Len()
				g.derive(g.tupleSlot(call, x.Index, n), g.val(x))
			}
			g.derive(g.val(x.Tuple), g.val(x))
		}
	case *ssa.MakeClosure:
		f := x.Fn.(*ssa.Function)
		for i, bnd := range x.Bindings {
			g.aedge(g.val(bnd), g.val(f.FreeVars[i]))
			g.aedge(g.val(bnd), g.val(x))
			for k := 0; k <= 3; k++ {
				g.aedge(g.val(x), g.cN(g.val(f.FreeVars[i]), k)) // whoever holds the closure reaches what it captured
				if k > 0 {
					g.aedge(g.cN(g.val(bnd), k), g.cN(g.val(f.FreeVars[i]), k)) // the free variable is the binding
					g.aedge(g.cN(g.val(f.FreeVars[i]), k), g.cN(g.val(bnd), k))
				}
			}
		}
	case *ssa.Store:
		if viewType(x.Val.Type()) {
			g.aedge(g.val(x.Val), g.content(g.val(x.Addr))) // the memory now holds that view
			g.same(g.val(x.Val), g.content(g.val(x.Addr)), x.Val.Type())
			g.held(g.val(x.Val), g.val(x.Addr))
		}
		wr(x.Addr, "store")
	case *ssa.MapUpdate:
		if viewType(x.Value.Type()) {
			g.aedge(g.val(x.Value), g.content(g.val(x.Map))) // the map now holds that view
			g.same(g.val(x.Value), g.content(g.val(x.Map)), x.Value.Type())
			g.held(g.val(x.Value), g.val(x.Map))
		}
		wr(x.Map, "map update")
	case *ssa.Send:
		g.aedge(g.val(x.X), g.val(x.Chan))
	case *ssa.Return:
		for i, r := range x.Results {
			rn := g.ret(fn, i)
			if viewType(r.Type()) {
				g.derive(g.val(r), rn)
				g.same(g.val(r), rn, r.Type())
			}
		}
	case *ssa.Call, *ssa.Defer, *ssa.Go:
		var c *ssa.CallCommon
		var result ssa.Value
		deferred := 0
		switch y := in.(type) {
		case *ssa.Call:
			c, result = &y.Call, y
		case *ssa.Defer:
			c, deferred = &y.Call, 1
		case *ssa.Go:
			c = &y.Call
		}
		var args []ssa.Value
		if c.IsInvoke() {
			args = append(args, c.Value)
		}
		args = append(args, c.Args...)
		if bi, ok := c.Value.(*ssa.Builtin); ok {
			switch bi.Name() {
			case "copy":
				wr(args[0], "copy into")
			case "append":
				wr(args[0], "append to")
				g.derive(g.val(args[0]), g.val(result))
			case "clear":
				wr(args[0], "clear")
			}
			return
		}
		name := ""
		if sc := c.StaticCallee(); sc != nil {
			name = sc.String()
			if g.ours[sc] {
				for i, a := range args {
					if i < len(sc.Params) && viewType(a.Type()) {
						g.derive(g.val(a), g.val(sc.Params[i]))
					}
				}
				nres := sc.Signature.Results().Len()
				for i := 0; i < nres; i++ {
					g.derive(g.retIn(sc, i, g.ctxFor(in, sc)), g.tupleSlot(result, i, nres))
					g.same(g.retIn(sc, i, g.ctxFor(in, sc)), g.tupleSlot(result, i, nres), sc.Signature.Results().At(i).Type())
				}
				return
			}
		} else if !c.IsInvoke() {
			// a function value: every function of ours with that signature
			sig, _ := c.Value.Type().Underlying().(*types.Signature)
			for _, f := range g.fnList {
				if sig != nil && f.Signature.Recv() == nil && types.Identical(f.Signature, sig) {
					for i, a := range args {
						if i < len(f.Params) && viewType(a.Type()) {
							g.derive(g.val(a), g.val(f.Params[i]))
						}
					}
					for i := 0; i < f.Signature.Results().Len(); i++ {
						g.derive(g.retIn(f, i, 0), g.tupleSlot(result, i, f.Signature.Results().Len()))
					}
				}
			}
			return
		} else {
			for _, f := range g.fnList {
				if f.Signature.Recv() != nil && f.Name() == c.Method.Name() && types.Identical(dropRecv(f.Signature), c.Method.Type()) {
					ps := f.Params
					for i, a := range args {
						if i < len(ps) && viewType(a.Type()) {
							g.derive(g.val(a), g.val(ps[i]))
						}
					}
					for i := 0; i < f.Signature.Results().Len(); i++ {
						g.derive(g.retIn(f, i, 0), g.tupleSlot(result, i, f.Signature.Results().Len()))
					}
				}
			}
			name = "(" + c.Value.Type().String() + ")." + c.Method.Name()
		}
		switch {
		case strings.HasSuffix(name, "sync.Pool).Get"):
			if result != nil {
				g.poolGets = append(g.poolGets, [2]int{g.val(result), fid})
				g.poolGets = append(g.poolGets, [2]int{g.content(g.val(result)), fid})
			}
		case strings.HasSuffix(name, "sync.Pool).Put"):
			g.puts = append(g.puts, [2]int{g.ins(in.Pos(), fn, "Put"), deferred})
		case strings.Contains(name, "binary.bigEndian).PutUint") || strings.Contains(name, "binary.littleEndian).PutUint"):
			wr(args[len(args)-2], "PutUint into")
		case strings.HasSuffix(name, "crypto/rand.Read") || strings.HasSuffix(name, "io.ReadFull"):
			wr(args[len(args)-1], "read into")
		case strings.HasSuffix(name, "hex.Decode") || strings.HasSuffix(name, "json.Unmarshal"):
			// destination arguments of decoders
			if strings.HasSuffix(name, "hex.Decode") {
				wr(args[0], "decode into")
			} else {
				wr(args[1], "decode into")
			}
		default:
			// code outside the analysed packages may return a view of what it was given
			if result != nil && viewType(result.Type()) && !strings.Contains(name, "sync.Pool") {
				for _, a := range args {
					if viewType(a.Type()) {
						g.derive(g.val(a), g.val(result))
					}
				}
			}
		}
	}
}

func isErrorType(t types.Type) bool {
	return types.Identical(t, types.Universe.Lookup("error").Type())
}

func isNil(v ssa.Value) bool {
	c, ok := v.(*ssa.Const)
	return ok && c.IsNil()
}

// outputSink: the arguments go out to the network / a log; nothing flows back into the receiver
func outputSink(name string) bool {
	for _, p := range []string{"RequestCtx).Set", "RequestCtx).Redirect", "RequestCtx).Write", "RequestCtx).Error", "json.Encoder).Encode", "log/slog.", "fmt.Print"} {
		if strings.Contains(name, p) {
			return true
		}
	}
	return false
}

func b2i(b bool) int {
	if b {
		return 1
	}
	return 0
}

func plist(xs []int) string {
	s := make([]string, len(xs))
	for i, x := range xs {
		s[i] = fmt.Sprint(x)
	}
	return "[" + strings.Join(s, "; ") + "]"
}

func main() {
	if len(os.Args) != 5 {
		fmt.Fprintln(os.Stderr, "usage: gen_ssa <repo> <out.v> <Module> native|wasm")
		os.Exit(2)
	}
	repo, out, mode := os.Args[1], os.Args[2], os.Args[4]
	env := os.Environ()
	var pkgs []*packages.Package
	fset := token.NewFileSet()
	load := func(dir string, patterns ...string) {
		cfg := &packages.Config{Mode: packages.LoadAllSyntax, Dir: dir, Env: env, Fset: fset, BuildFlags: nil}
		p, err := packages.Load(cfg, patterns...)
		if err != nil {
			fmt.Fprintln(os.Stderr, "gen_ssa: load:", err)
			os.Exit(1)
		}
		if packages.PrintErrors(p) > 0 {
			os.Exit(1)
		}
		pkgs = append(pkgs, p...)
	}
	if mode == "wasm" {
		env = append(env, "GOOS=js", "GOARCH=wasm")
		load(repo, ".", "./wasm")
	} else {
		load(repo, ".", "./internal/app/...") // one load (workspace mode): a single instance of every package
	}
	prog, _ := ssautil.AllPackages(pkgs, ssa.InstantiateGenerics)
	prog.Build()
	g := &gen{prog: prog, fset: fset, ids: map[any]int{}, fnIDs: map[*ssa.Function]int{}, ours: map[*ssa.Function]bool{}, precise: map[int]bool{}, ourCall: map[ssa.Value]bool{}, callCtx: map[ssa.Instruction]int{}, cloneMemo: map[*ssa.Function]bool{}, nfields: map[int]int{}, lenOf: map[int]int{}}
	var fns []*ssa.Function
	for fn := range ssautil.AllFunctions(prog) {
		if isOurs(fn) && fn.Blocks != nil && !strings.Contains(fn.String(), "/docs.") {
			fns = append(fns, fn)
		}
	}
	sort.Slice(fns, func(i, j int) bool {
		if fns[i].String() != fns[j].String() {
			return fns[i].String() < fns[j].String()
		}
		return fns[i].Pos() < fns[j].Pos()
	})
	for i, fn := range fns {
		g.fnIDs[fn] = i + 1
		g.ours[fn] = true
		g.fnList = append(g.fnList, fn)
		g.fnNames = append(g.fnNames, fn.String())
	}
	// JavaScript callbacks: the arguments JavaScript passes are caller-supplied text
	for _, fn := range fns {
		if mode == "wasm" && fn.Pkg != nil && fn.Pkg.Pkg.Name() == "main" && len(fn.Params) == 2 && fn.Params[1].Type().String() == "[]syscall/js.Value" {
			g.srcU = append(g.srcU, g.val(fn.Params[1]), g.L(g.val(fn.Params[1])))
		}
	}
	for _, fn := range fns {
		g.doFunc(fn)
	}
	// length shadows: the length is part of the value; without an exact rule the content decides the length
	{
		var ls [][2]int
		for k, id := range g.ids {
			if lk, ok := k.(lenKey); ok {
				ls = append(ls, [2]int{lk.n, id})
			}
		}
		sort.Slice(ls, func(i, j int) bool { return ls[i][1] < ls[j][1] })
		for _, x := range ls {
			if x[0] == 0 || x[1] == 0 {
				continue
			}
			g.edges = append(g.edges, [2]int{x[1], x[0]}) // (not through edge(): the length is part of the node itself)
			if !g.precise[x[0]] {
				g.edges = append(g.edges, [2]int{x[0], x[1]})
			}
		}
	}
	_ = constant.MakeBool
	var b strings.Builder
	fmt.Fprintf(&b, "(* GENERATED by /verif/tools/gen_ssa (%s build) from the SSA form of %s — do not edit. *)\n", mode, repo)
	b.WriteString("From Coq Require Import List PArith String. Import ListNotations.\nFrom OtpV Require Import Flow.\nOpen Scope positive_scope.\n")
	fmt.Fprintf(&b, "Definition n_nodes : positive := %d.\nDefinition n_functions : nat := %d.\n", len(g.names)+1, len(fns))
	es := make([]string, len(g.edges))
	for i, e := range g.edges {
		es[i] = fmt.Sprintf("(%d, %d)", e[0], e[1])
	}
	b.WriteString(chunked("edges", "(positive * positive)", es))
	fmt.Fprintf(&b, "Definition sources_hmac : list positive := %s.\n", plist(nz(g.srcS)))
	fmt.Fprintf(&b, "Definition sources_caller : list positive := %s.\n", plist(nz(g.srcU)))
	cs := func(xs []cmp) string {
		s := make([]string, len(xs))
		for i, c := range xs {
			s[i] = fmt.Sprintf("(%d, %s)", c.id, plist(nz(c.args)))
		}
		return "[" + strings.Join(s, "; ") + "]"
	}
	fmt.Fprintf(&b, "(* instruction id, operand nodes *)\nDefinition comparisons : list (positive * list positive) := %s.\n", cs(g.cmps))
	fmt.Fprintf(&b, "Definition external_calls : list (positive * list positive) := %s.\n", cs(g.exts))
	b.WriteString("(* callee of each external call, in the same order *)\nDefinition external_callees : list string := [")
	for i, c := range g.exts {
		if i > 0 {
			b.WriteString("; ")
		}
		fmt.Fprintf(&b, "\"%s\"%%string", strings.ReplaceAll(c.what, "\"", "\"\""))
	}
	b.WriteString("].\n")
	is := make([]string, len(g.ifs))
	for i, x := range g.ifs {
		c := x.cond
		if c == 0 {
			c = len(g.names) + 1
		}
		is[i] = fmt.Sprintf("(%d, %d, %d)", x.fn, x.blk, c)
	}
	fmt.Fprintf(&b, "(* function, block, condition node *)\nDefinition branches : list (positive * positive * positive) := [%s].\n", strings.Join(is, "; "))
	cf := make([]string, len(g.cfg))
	for i, x := range g.cfg {
		cf[i] = fmt.Sprintf("(%d, %d, %d)", x[0], x[1], x[2])
	}
	fmt.Fprintf(&b, "(* function, block, successor *)\nDefinition cfg : list (positive * positive * positive) := [%s].\n", strings.Join(cf, "; "))
	ib := make([]string, len(g.inblk))
	for i, x := range g.inblk {
		ib[i] = fmt.Sprintf("(%d, %d, %d, %d)", x[0], x[1], x[2], x[3])
	}
	fmt.Fprintf(&b, "(* kind (1 comparison, 2 external call, 3 internal call), instruction, function, block *)\nDefinition placed : list (positive * positive * positive * positive) := [%s].\n", strings.Join(ib, "; "))
	var globals []int
	for k, id := range g.ids {
		switch x := k.(type) {
		case retKey:
			if x.fn != nil {
				g.rets = append(g.rets, [3]int{g.fnIDs[x.fn], id, 0})
			}
		case *ssa.Global:
			if x.Pkg != nil && strings.HasPrefix(x.Pkg.Pkg.Path(), root) {
				globals = append(globals, id)
			}
		}
	}
	sort.Slice(g.rets, func(i, j int) bool { return g.rets[i][1] < g.rets[j][1] })
	for i := range g.rets {
		for fn, fid := range g.fnIDs {
			if fid == g.rets[i][0] {
				g.rets[i][2] = g.ins(fn.Pos(), fn, "result (a view of a pooled buffer leaves the function that took it)")
			}
		}
	}
	sort.Ints(globals)
	for _, id := range globals {
		g.globSrc = append(g.globSrc, id, g.cN(id, 1), g.cN(id, 2), g.cN(id, 3)) // the variable, what it holds, what that refers to, ...
	}
	pr := func(xs [][2]int) string {
		o := make([]string, len(xs))
		for i, x := range xs {
			o[i] = fmt.Sprintf("(%d, %d)", x[0], x[1])
		}
		return "[" + strings.Join(o, "; ") + "]"
	}
	tr := make([]string, len(g.writes))
	for i, x := range g.writes {
		tr[i] = fmt.Sprintf("(%d, %d, %d)", x[0], x[1], x[2]+1)
	}
	{
		as := make([]string, len(g.alias))
		for i, x := range g.alias {
			as[i] = fmt.Sprintf("(%d, %d)", x[0], x[1])
		}
		b.WriteString("(* views and pointers: x aliases into y *)\n" + chunked("alias_edges", "(positive * positive)", as))
	}
	fmt.Fprintf(&b, "Definition param_refs : list positive := %s.\nDefinition global_refs : list positive := %s.\n", plist(nz(g.paramSrc)), plist(nz(g.globSrc)))
	fmt.Fprintf(&b, "(* pooled buffer, function that took it *)\nDefinition pool_gets : list (positive * positive) := %s.\n", pr(g.poolGets))
	fmt.Fprintf(&b, "(* written object, instruction, 2 = inside an init function *)\nDefinition writes : list (positive * positive * positive) := [%s].\n", strings.Join(tr, "; "))
	rs := make([]string, len(g.rets))
	for i, x := range g.rets {
		rs[i] = fmt.Sprintf("(%d, %d, %d)", x[0], x[1], x[2])
	}
	fmt.Fprintf(&b, "(* function, result node, instruction naming it *)\nDefinition results : list (positive * positive * positive) := [%s].\n", strings.Join(rs, "; "))
	pt := make([]string, len(g.puts))
	for i, x := range g.puts {
		pt[i] = fmt.Sprintf("(%d, %d)", x[0], x[1]+1)
	}
	fmt.Fprintf(&b, "(* Pool.Put call, 2 = deferred *)\nDefinition pool_puts : list (positive * positive) := [%s].\n", strings.Join(pt, "; "))
	mg := make([]string, len(g.implicit))
	for i, x := range g.implicit {
		mg[i] = fmt.Sprintf("(%d, %d)", x[0], x[1])
	}
	b.WriteString("(* control dependence: branch condition -> phi node / returned value it selects *)\n" + chunked("implicit_edges", "(positive * positive)", mg))
	cd := make([]string, len(g.controlled))
	for i, x := range g.controlled {
		cd[i] = fmt.Sprintf("(%d, %d)", x[0], x[1])
	}
	fmt.Fprintf(&b, "(* control dependence: branch condition, placed instruction (comparison / call) it controls *)\nDefinition controlled : list (positive * positive) := [%s].\n", strings.Join(cd, "; "))
	ce := make([]string, len(g.callees))
	for i, x := range g.callees {
		ce[i] = fmt.Sprintf("(%d, %d)", x[0], x[1])
	}
	fmt.Fprintf(&b, "(* internal call instruction, callee function *)\nDefinition call_targets : list (positive * positive) := [%s].\n", strings.Join(ce, "; "))
	fmt.Fprintf(&b, "Definition global_writes_outside_init : nat := %d.\n", len(g.gwrites))
	q := func(s string) string { return strings.ReplaceAll(s, "\"", "\"\"") }
	b.WriteString("(* descriptions, for reports *)\nDefinition instr_names : list string := [")
	for i, s := range g.insPos {
		if i > 0 {
			b.WriteString("; ")
		}
		fmt.Fprintf(&b, "\"%s\"%%string", q(s))
	}
	b.WriteString("].\n")
	b.WriteString("Definition mem_facts : mfacts := mkMFacts alias_edges param_refs global_refs pool_gets writes results pool_puts instr_names.\n")
	b.WriteString("Definition facts : facts := mkFacts edges implicit_edges sources_hmac sources_caller comparisons external_calls external_callees placed controlled call_targets instr_names.\n")
	if err := os.WriteFile(out+".names", []byte(strings.Join(g.names, "\n")+"\n--globals written outside init--\n"+strings.Join(g.gwrites, "\n")+"\n"), 0o644); err != nil {
		panic(err)
	}
	old, _ := os.ReadFile(out)
	if string(old) != b.String() {
		if err := os.WriteFile(out, []byte(b.String()), 0o644); err != nil {
			panic(err)
		}
	}
	fmt.Printf("gen_ssa %s: %d functions, %d nodes, %d edges, %d comparisons, %d external calls, %d hmac sources, %d caller sources\n",
		mode, len(fns), len(g.names), len(g.edges), len(g.cmps), len(g.exts), len(g.srcS), len(g.srcU))
}

func nz(xs []int) []int {
	var o []int
	for _, x := range xs {
		if x != 0 {
			o = append(o, x)
		}
	}
	return o
}
