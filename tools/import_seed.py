#!/usr/bin/env python3
"""import_seed.py <Cxx> <agent-out-dir> [first-index]: copy an agent's out/m1, out/m2 into seeded/<Cxx>-m<k>,
confirm each with tools/confirm_mutant.sh and write meta.json.  Nothing is kept unless it confirms."""
import json, os, shutil, subprocess, sys
root = os.path.dirname(os.path.dirname(os.path.abspath(__file__)))
pid, src = sys.argv[1], sys.argv[2]
k = int(sys.argv[3]) if len(sys.argv) > 3 else 3
head = subprocess.run(['git', '-C', '/repo', 'rev-parse', '--short', 'HEAD'], capture_output=True, text=True).stdout.strip()
for m in sorted(os.listdir(src)):
    d = os.path.join(src, m)
    if not os.path.isfile(os.path.join(d, 'patch.diff')):
        continue
    mid = '%s-m%d' % (pid, k); k += 1
    dst = os.path.join(root, 'seeded', mid)
    if os.path.exists(dst):
        shutil.rmtree(dst)
    shutil.copytree(d, dst)
    # normalise the demonstration's name
    demos = [f for f in os.listdir(dst) if f.endswith('_test.go') and f != 'demo_test.go']
    if demos and not os.path.exists(os.path.join(dst, 'demo_test.go')):
        os.rename(os.path.join(dst, demos[0]), os.path.join(dst, 'demo_test.go'))
    r = subprocess.run(['sh', os.path.join(root, 'tools/confirm_mutant.sh'), dst], capture_output=True, text=True)
    line = (r.stdout.strip().splitlines() or ['?'])[-1]
    ok = 'apply=ok build=ok suite=pass demo_with=FAIL demo_without=PASS' in line
    print(line, '=> KEPT' if ok else '=> NOT CONFIRMED (left in place for inspection)')
    json.dump({'id': mid, 'breaks_property': pid, 'source': 'independent sub-agent (fourth round: changes whose wrong behaviour needs a computed condition or a narrow part of the input space) given only the property text and a scratch worktree',
               'needs_to_manifest': 'see notes.md',
               'confirmed': {'cmd': 'tools/confirm_mutant.sh seeded/' + mid, 'result': line.split(' ', 1)[-1], 'repo_head': head}},
              open(os.path.join(dst, 'meta.json'), 'w'), indent=1)
