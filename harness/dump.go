package main

import (
	"encoding/base32"
	"encoding/json"
	"errors"
	"fmt"
	"io"
	"sort"
	"time"

	"github.com/ja7ad/otp"
)

// dump prints, as JSON, what the built library says about itself: exported constants, default parameter sets, error
// texts, the suite registry, the modulus table (hooks only) and a few facts that are behaviour rather than data
// (the number of supported hashes, the validation window bounds, what period 0 means), found by probing the public
// API.  The translator (tools/gen_tables) prefers these to what it can read off the source text, so that a refactoring
// which moves a table or a check elsewhere does not blind it.
func dump(w io.Writer) {
	secret := base32.StdEncoding.EncodeToString([]byte("12345678901234567890"))
	key := []byte("12345678901234567890")
	out := map[string]any{"hooks": haveHooks}
	if haveHooks {
		out["mod10"] = hkMod10()
	}
	par := func(p *otp.Param) []uint64 {
		return []uint64{uint64(p.Digits), uint64(p.Period), uint64(p.Skew), uint64(p.Algorithm)}
	}
	if otp.DefaultHOTPParam != nil {
		out["default_hotp"] = par(otp.DefaultHOTPParam)
	}
	if otp.DefaultTOTPParam != nil {
		out["default_totp"] = par(otp.DefaultTOTPParam)
	}
	out["consts"] = map[string]int64{
		"SixDigits": int64(otp.SixDigits), "EightDigits": int64(otp.EightDigits), "NineDigits": int64(otp.NineDigits), "TenDigits": int64(otp.TenDigits),
		"SHA1": int64(otp.SHA1), "SHA256": int64(otp.SHA256), "SHA512": int64(otp.SHA512),
		"ChallengeNone": int64(otp.ChallengeNone), "ChallengeNumeric08": int64(otp.ChallengeNumeric08), "ChallengeNumeric10": int64(otp.ChallengeNumeric10),
		"ChallengeAlpha08": int64(otp.ChallengeAlpha08), "ChallengeAlpha10": int64(otp.ChallengeAlpha10), "ChallengeHex08": int64(otp.ChallengeHex08), "ChallengeHex10": int64(otp.ChallengeHex10),
		"PasswordNone": int64(otp.PasswordNone), "PasswordSHA1": int64(otp.PasswordSHA1), "PasswordSHA256": int64(otp.PasswordSHA256), "PasswordSHA512": int64(otp.PasswordSHA512),
	}
	errs := map[string]string{}
	for n, e := range map[string]error{"ErrUnsupportedAlgorithm": otp.ErrUnsupportedAlgorithm, "ErrInvalidCodeLength": otp.ErrInvalidCodeLength,
		"ErrInvalidCode": otp.ErrInvalidCode, "ErrIssuerRequired": otp.ErrIssuerRequired, "ErrAccountNameRequired": otp.ErrAccountNameRequired,
		"ErrSecretRequired": otp.ErrSecretRequired, "ErrInvalidSkew": otp.ErrInvalidSkew, "ErrInvalidRawSuite": otp.ErrInvalidRawSuite} {
		if e != nil {
			errs[n] = e.Error()
		}
	}
	out["errors"] = errs
	// the registry: through the hook the map itself, otherwise what the public API shows of it
	reg := map[string][]any{}
	for n, c := range hkKnownSuites() {
		reg[n] = []any{uint64(c.Hash), c.Digits, int(c.Challenge), c.IncludeCounter, c.IncludeChallenge, c.IncludePassword, c.IncludeSession,
			c.IncludeTimestamp, int(c.PasswordHash), c.TimeStep, c.Raw}
	}
	out["registry"] = reg
	out["registry_through_hook"] = haveHooks

	// ---- behaviour, by probing (each probe is guarded: a panic or a hang makes the fact unknown)
	probe := func(f func() any) (res any) {
		done := make(chan any, 1)
		go func() {
			defer func() {
				if recover() != nil {
					done <- nil
				}
			}()
			done <- f()
		}()
		select {
		case r := <-done:
			return r
		case <-time.After(10 * time.Second):
			return nil
		}
	}
	// number of supported hashes: the least Algorithm value refused as unsupported, if every larger one is refused too
	out["n_hashes"] = probe(func() any {
		first := -1
		for a := 0; a <= 255; a++ {
			_, err := otp.GenerateHOTP(secret, 0, &otp.Param{Digits: 6, Algorithm: otp.Algorithm(a)})
			unsupported := errors.Is(err, otp.ErrUnsupportedAlgorithm)
			if unsupported && first < 0 {
				first = a
			}
			if !unsupported && first >= 0 {
				return nil
			}
		}
		if first < 0 {
			return nil
		}
		return first
	})
	// window bound: the least window refused with ErrInvalidSkew, if every larger probe is refused too
	bound := func(refused func(uint) bool) any {
		first := -1
		ks := []uint{}
		for k := uint(0); k <= 64; k++ {
			ks = append(ks, k)
		}
		ks = append(ks, 100, 255, 256, 1000)
		for _, k := range ks {
			r := refused(k)
			if r && first < 0 {
				first = int(k)
			}
			if !r && first >= 0 {
				return "inconsistent"
			}
		}
		if first < 0 {
			return "none"
		}
		return first - 1
	}
	out["hotp_max_skew"] = probe(func() any {
		return bound(func(k uint) bool {
			_, err := otp.ValidateHOTP(secret, "000000", 5000, &otp.Param{Digits: 6, Skew: k})
			return errors.Is(err, otp.ErrInvalidSkew)
		})
	})
	out["totp_max_skew"] = probe(func() any {
		return bound(func(k uint) bool {
			_, err := otp.ValidateTOTP(secret, "000000", time.Unix(3000000, 0), &otp.Param{Digits: 6, Period: 30, Skew: k})
			return errors.Is(err, otp.ErrInvalidSkew)
		})
	})
	// what period 0 means: the period p (1..3600) whose codes period 0 reproduces at several instants, if there is exactly one
	instants := []int64{59, 1111111109, 1234567890, 2000000000, 86399, 1700000001}
	zero := func(code func(t int64, period uint) (string, bool)) any {
		want := make([]string, len(instants))
		for i, t := range instants {
			c, ok := code(t, 0)
			if !ok {
				return "none"
			}
			want[i] = c
		}
		found := -1
		for p := uint(1); p <= 3600; p++ {
			all := true
			for i, t := range instants {
				if refHOTP(key, uint64(t)/uint64(p), 6, 0) != want[i] {
					all = false
					break
				}
			}
			if all {
				if found >= 0 {
					return "ambiguous"
				}
				found = int(p)
			}
		}
		if found < 0 {
			return "none"
		}
		return found
	}
	out["totp_gen_zero_period"] = probe(func() any {
		return zero(func(t int64, period uint) (string, bool) {
			c, err := otp.GenerateTOTP(secret, time.Unix(t, 0), &otp.Param{Digits: 6, Period: period})
			return c, err == nil
		})
	})
	out["totp_val_zero_period"] = probe(func() any {
		// validation: which period's code for the instant is accepted with period 0 (skew 0)
		found := -2
		for p := uint(1); p <= 3600; p++ {
			all := true
			for _, t := range instants {
				ok, _ := otp.ValidateTOTP(secret, refHOTP(key, uint64(t)/uint64(p), 6, 0), time.Unix(t, 0), &otp.Param{Digits: 6, Period: 0})
				if !ok {
					all = false
					break
				}
			}
			if all {
				if found >= 0 {
					return "ambiguous"
				}
				found = int(p)
			}
		}
		if found < 0 {
			return "none"
		}
		return found
	})
	out["totp_url_zero_period"] = probe(func() any {
		u, err := otp.GenerateTOTPURL(otp.URLParam{Issuer: "I", AccountName: "a", Secret: secret, Period: 0})
		if err != nil || u == nil {
			return "none"
		}
		v := u.Query().Get("period")
		var n int
		if _, err := fmt.Sscanf(v, "%d", &n); err != nil || fmt.Sprint(n) != v {
			return "none"
		}
		return n
	})
	names := make([]string, 0, len(out))
	for k := range out {
		names = append(names, k)
	}
	sort.Strings(names)
	b, _ := json.MarshalIndent(out, "", " ")
	w.Write(b)
	w.Write([]byte("\n"))
}
