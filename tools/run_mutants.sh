#!/bin/sh
# run_mutants.sh [id ...]: apply each seeded change to the repository named by VERIF_REPO (default /repo),
# run every claimed check's quick command, undo the change, and print which checks reported a violation.
# Meant to be started with `vp run --with-repo -- sh tools/run_mutants.sh` (then VERIF_REPO=$VP_RUN_REPO)
# so that /repo itself is never modified while the developer works.
cd "$(dirname "$0")/.."
ROOT=$(pwd)
REPO=${VP_RUN_REPO:-${VERIF_REPO:-/repo}}
export VERIF_REPO=$REPO
[ "$(cd $REPO && pwd -P)" = "/repo" ] && { echo "refusing to patch /repo itself: start through vp run --with-repo or set VERIF_REPO to a scratch worktree"; exit 2; }
[ -x bin/harness ] && [ -x bin/model_runner ] || bin/setup >/dev/null 2>&1 || { echo "setup failed"; exit 2; }
D=${SEED_DIR:-seeded}; IDS="$*"; [ -n "$IDS" ] || IDS=$(ls $D | grep -v "\.md$\|\.log$")
CHECKS=$(python3 -c "import json;print(' '.join(c['property_id'] for c in json.load(open('MANIFEST.json'))['checks']))")
echo "# repo=$REPO checks=$CHECKS"
[ -n "$SKIP_CLEAN" ] || for c in $CHECKS; do bin/check $c >/dev/null 2>&1 || echo "CLEAN-TREE-ALARM $c"; done
for id in $IDS; do
  [ -f $D/$id/patch.diff ] || continue
  git -C $REPO checkout -q -- . ; git -C $REPO clean -fdq; git -C $REPO apply $ROOT/$D/$id/patch.diff || { echo "$id APPLY-FAILED"; continue; }
  hits=""; detail=""
  own=$(echo $id | cut -d- -f1)
  RUN="$CHECKS"; [ -n "$OWN_ONLY" ] && RUN="$own $EXTRA_CHECKS"
  for c in $RUN; do
    out=$(bin/check $c 2>&1); rc=$?
    if [ $rc -ne 0 ]; then
      n=$(echo "$out" | grep -c '^VIOLATION')
      w=$(echo "$out" | grep '^VIOLATION' | grep -vc 'no-failing-input-found')
      hits="$hits $c($w/$n)"
    fi
  done
  git -C $REPO checkout -q -- . ; git -C $REPO clean -fdq
  echo "$id caught-by:${hits:- NONE}"
done
