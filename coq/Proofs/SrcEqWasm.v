(** derive_rfc4226_wasm.go and validate_wasm.go (the js/wasm build of the library) as translated from the Go
    source (Generated/SrcWasm.v) compute what the hand-written model (Model/Wasm.v) computes. *)
From Coq Require Import ZifyN ZifyNat ZifyBool String.
From OtpV Require Import Prelude Sha Tables GoSem Errors Decoder Derive Otp Wasm DeriveProofs SrcWasm SrcLift.
Open Scope N_scope.
Ltac Zify.zify_post_hook ::= Z.div_mod_to_equations.

Lemma srcw_truncate_eq sum md : small sum ->
  SrcWasm.truncate sum md = lift_p (Derive.truncate sum md).
Proof.
  intros Hs. unfold SrcWasm.truncate, Derive.truncate.
  rewrite (idx_last sum Hs).
  destruct sum as [|a s]; [reflexivity|].
  cbn [rbind]. set (sm := a :: s) in *.
  unfold mask_offset.
  pose proof (land15_lt (last sm 0)) as Hlt.
  set (off := N.land (last sm 0) 15) in *.
  rewrite !wrap8_small by lia.
  rewrite !idx_N.
  replace (N.to_nat (off + 1)) with (N.to_nat off + 1)%nat by lia.
  replace (N.to_nat (off + 2)) with (N.to_nat off + 2)%nat by lia.
  replace (N.to_nat (off + 3)) with (N.to_nat off + 3)%nat by lia.
  destruct (nth_error sm (N.to_nat off)) as [b0|]; [|reflexivity]. cbn [rbind].
  destruct (nth_error sm (N.to_nat off + 1)) as [b1|]; [|reflexivity]. cbn [rbind].
  destruct (nth_error sm (N.to_nat off + 2)) as [b2|]; [|reflexivity]. cbn [rbind].
  destruct (nth_error sm (N.to_nat off + 3)) as [b3|]; [|reflexivity]. cbn [rbind].
  unfold umod, mask31.
  destruct (md =? 0); reflexivity.
Qed.

Lemma iter_shift {A} (f : A -> A) m : forall r, Nat.iter m f (f r) = Nat.iter (S m) f r.
Proof. induction m as [|m IH]; intros r; [reflexivity|]. change (Nat.iter (S m) f (f r)) with (f (Nat.iter m f (f r))). rewrite IH. reflexivity. Qed.

Lemma srcw_pow10_loop n : forall k fuel f0 r kx, (n - k < fuel)%nat -> (k <= n)%nat -> (Z.of_nat n < 4611686018427387904)%Z ->
  SrcWasm.pow10Wasm_loop1 fuel f0 (Z.of_nat n) r (Z.of_nat k) kx
  = kx (Nat.iter (n - k) (fun x => wrap64 (x * 10)) r) (Z.of_nat n).
Proof.
  intros k. remember (n - k)%nat as m eqn:Hm. revert k Hm.
  induction m as [|m IH]; intros k Hm fuel f0 r kx Hf Hk Hb.
  - destruct fuel as [|fuel]; [lia|]. cbn [SrcWasm.pow10Wasm_loop1 Nat.iter].
    assert (k = n) by lia. subst k. rewrite Z.ltb_irrefl. reflexivity.
  - destruct fuel as [|fuel]; [lia|]. cbn [SrcWasm.pow10Wasm_loop1].
    destruct (Z.ltb (Z.of_nat k) (Z.of_nat n)) eqn:E; [|lia].
    rewrite wrap_int64_small by lia.
    replace (Z.of_nat k + 1)%Z with (Z.of_nat (S k)) by lia.
    rewrite (IH (S k)) by lia.
    f_equal. exact (iter_shift (fun x => wrap64 (x * 10)) m r).
Qed.

Lemma pow10_wasm_iter n : pow10_wasm n = Nat.iter n (fun x => wrap64 (x * 10)) 1.
Proof. induction n as [|n IH]; [reflexivity|]. cbn [pow10_wasm Nat.iter]. rewrite IH. reflexivity. Qed.

Lemma srcw_pow10Wasm_eq fuel n : (0 <= n < Z.of_nat fuel)%Z -> (n < 4611686018427387904)%Z ->
  SrcWasm.pow10Wasm fuel n = Val (pow10_wasm (Z.to_nat n)).
Proof.
  intros Hf Hb. unfold SrcWasm.pow10Wasm.
  replace n with (Z.of_nat (Z.to_nat n)) at 1 by lia.
  change 0%Z with (Z.of_nat 0).
  rewrite (srcw_pow10_loop (Z.to_nat n) 0) by lia.
  rewrite Nat.sub_0_r, pow10_wasm_iter. reflexivity.
Qed.

Lemma srcw_pad_loop : forall post pre fuel f0 kx, (length post < fuel)%nat -> (Z.of_nat (length pre + length post) < 4611686018427387904)%Z ->
  SrcWasm.DeriveRFC4226Wasm_loop1 fuel f0 (pre ++ post) (Z.of_nat (length pre)) kx
  = kx (pre ++ repeat 48 (length post)) (Z.of_nat (length pre + length post)).
Proof.
  induction post as [|x post IH]; intros pre fuel f0 kx Hf Hb.
  - destruct fuel as [|fuel]; [simpl in Hf; lia|]. cbn [SrcWasm.DeriveRFC4226Wasm_loop1 length repeat].
    rewrite app_nil_r, Nat.add_0_r. unfold zlen. rewrite Z.ltb_irrefl. reflexivity.
  - destruct fuel as [|fuel]; [simpl in Hf; lia|]. cbn [length] in *. cbn [SrcWasm.DeriveRFC4226Wasm_loop1].
    unfold zlen. rewrite app_length. cbn [length].
    destruct (Z.ltb (Z.of_nat (length pre)) (Z.of_nat (length pre + S (length post)))) eqn:E; [|lia].
    unfold set_idx, zlen. rewrite app_length. cbn [length].
    destruct (Z.of_nat (length pre) <? 0)%Z eqn:E0; [lia|].
    destruct (Z.of_nat (length pre + S (length post)) <=? Z.of_nat (length pre))%Z eqn:E1; [lia|].
    cbn [orb rbind]. rewrite Nat2Z.id, upd_app_last.
    rewrite wrap_int64_small by lia.
    replace (Z.of_nat (length pre) + 1)%Z with (Z.of_nat (length (pre ++ [48]))) by (rewrite app_length; cbn [length]; lia).
    replace (pre ++ 48 :: post) with ((pre ++ [48]) ++ post) by (rewrite <- app_assoc; reflexivity).
    rewrite IH by (rewrite ?app_length; cbn [length]; lia).
    rewrite app_length. cbn [length repeat]. rewrite <- app_assoc. cbn [app].
    f_equal. lia.
Qed.

Lemma srcw_DeriveRFC4226Wasm_eq fuel secret counter digits algo : (12 <= fuel)%nat ->
  SrcWasm.DeriveRFC4226Wasm fuel secret counter digits algo = lift_oc (Wasm.derive_wasm_with hmac secret counter digits algo).
Proof.
  intros Hf. unfold SrcWasm.DeriveRFC4226Wasm, Wasm.derive_wasm_with. cbv zeta.
  assert (Hk : forall a, 
    (if (digits <? 1)%Z || (10 <? digits)%Z then Val ([], Some (ESent ErrInvalidCodeLength))
     else do t2 <- GoSem.put_uint64 (repeat 0 8) counter;
          do t3 <- deref (Some a);
          (let kj2 := fun mod_ : N =>
             do t4 <- SrcWasm.truncate (hash_sum (hash_write (hmac_new t3 secret) t2) []) mod_;
             (let kj3 := fun s : bytes => Val (s, @None err) in
              if Z.ltb (zlen (dec_of_N t4)) digits
              then do t5 <- make_bytes (wrap_int64 (digits - zlen (dec_of_N t4)));
                   SrcWasm.DeriveRFC4226Wasm_loop1 fuel fuel t5 0 (fun (padding : bytes) (_ : Z) => kj3 (padding ++ dec_of_N t4))
              else kj3 (dec_of_N t4)) in
           if (1 <=? digits)%Z && (digits <=? 9)%Z then do t6 <- idxN SrcWasm.g_mod10 digits; kj2 t6
           else do t7 <- SrcWasm.pow10Wasm fuel digits; kj2 t7))
    = lift_oc (if (digits <? 1)%Z || (10 <? digits)%Z then Err (ESent ErrInvalidCodeLength)
               else obind (if (1 <=? digits)%Z && (digits <=? 9)%Z then Derive.mod10_at digits else Ok (pow10_wasm (Z.to_nat digits))) (fun md =>
                    obind (Derive.truncate (hmac a secret (Derive.put_uint64 counter)) md) (fun code =>
                      let s := dec_of_N code in Ok (repeat 48 (Z.to_nat digits - length s) ++ s))))).
  { intros a. destruct ((digits <? 1)%Z || (10 <? digits)%Z) eqn:Ed; [reflexivity|].
    unfold GoSem.put_uint64. cbn [repeat length Nat.ltb Nat.leb rbind skipn deref]. rewrite app_nil_r.
    cbv zeta. unfold hash_sum, hash_write, hmac_new. cbn [h_alg h_key h_msg app].
    change (be64 counter) with (Derive.put_uint64 counter).
    assert (Hm : (if (1 <=? digits)%Z && (digits <=? 9)%Z then idxN SrcWasm.g_mod10 digits else SrcWasm.pow10Wasm fuel digits)
                 = lift_p (if (1 <=? digits)%Z && (digits <=? 9)%Z then Derive.mod10_at digits else Ok (pow10_wasm (Z.to_nat digits)))).
    { destruct ((1 <=? digits)%Z && (digits <=? 9)%Z).
      - change SrcWasm.g_mod10 with Tables.mod10. unfold idxN, idx, Derive.mod10_at.
        destruct (digits <? 0)%Z; [reflexivity|]. destruct (nth_error mod10 (Z.to_nat digits)); reflexivity.
      - rewrite srcw_pow10Wasm_eq by lia. reflexivity. }
    set (M := if (1 <=? digits)%Z && (digits <=? 9)%Z then Derive.mod10_at digits else Ok (pow10_wasm (Z.to_nat digits))) in *.
    assert (HM : forall e, M <> Err e).
    { intros e. unfold M. destruct ((1 <=? digits)%Z && (digits <=? 9)%Z); [|discriminate].
      unfold Derive.mod10_at. destruct (digits <? 0)%Z; [discriminate|]. destruct (nth_error mod10 (Z.to_nat digits)); discriminate. }
    destruct ((1 <=? digits)%Z && (digits <=? 9)%Z); rewrite Hm;
      (destruct M as [md|e|]; [|exfalso; apply (HM e); reflexivity|reflexivity]); cbn [lift_p rbind obind];
      rewrite srcw_truncate_eq by (unfold small, zlen; rewrite hmac_length; destruct a; cbn; lia);
      (assert (HT : forall e, Derive.truncate (hmac a secret (Derive.put_uint64 counter)) md <> Err e)
        by (intros e; unfold Derive.truncate; destruct (hmac a secret (Derive.put_uint64 counter)); [discriminate|];
            repeat match goal with |- context [match nth_error ?l ?i with _ => _ end] => destruct (nth_error l i) end; try discriminate;
            destruct (md =? 0); discriminate));
      (destruct (Derive.truncate (hmac a secret (Derive.put_uint64 counter)) md) as [code|e|]; [|exfalso; apply (HT e); reflexivity|reflexivity]);
      cbn [lift_p rbind obind]; cbv zeta; unfold zlen;
      (destruct (Z.ltb (Z.of_nat (length (dec_of_N code))) digits) eqn:El;
       [ rewrite wrap_int64_small by lia; unfold make_bytes;
         (destruct (digits - Z.of_nat (length (dec_of_N code)) <? 0)%Z eqn:En; [lia|]); cbn [rbind];
         change 0%Z with (Z.of_nat (@length N []));
         rewrite (srcw_pad_loop (repeat 0 (Z.to_nat (digits - Z.of_nat (length (dec_of_N code))))) []) by (rewrite repeat_length; cbn [length]; lia);
         cbn [app lift_oc]; rewrite repeat_length;
         replace (Z.to_nat (digits - Z.of_nat (length (dec_of_N code)))) with (Z.to_nat digits - length (dec_of_N code))%nat by lia; reflexivity
       | replace (Z.to_nat digits - length (dec_of_N code))%nat with 0%nat by lia; reflexivity ]). }
  assert (Ha : algo = 0 \/ algo = 1 \/ algo = 2 \/ 3 <= algo) by lia.
  destruct Ha as [->|[->|[->|Hge]]]; cbn [N.eqb Derive.alg_of_N]; try apply Hk.
  destruct (N.eqb algo 0) eqn:E0; [lia|]. destruct (N.eqb algo 1) eqn:E1; [lia|]. destruct (N.eqb algo 2) eqn:E2; [lia|].
  replace (Derive.alg_of_N algo) with (@None alg); [reflexivity|].
  destruct algo as [|p]; [lia|]. destruct p as [[p|p|]|[p|p|]|]; try lia; reflexivity.
Qed.

Definition lift_vd (o : outcome verdict) : res (bool * option err) :=
  match o with Ok v => Val v | Err e => Val (false, Some e) | Panic => Pnc end.

Lemma srcw_ValidateOTPWasm_eq fuel code secret counter digits algo : (12 <= fuel)%nat ->
  SrcWasm.ValidateOTPWasm fuel code secret counter digits algo
  = lift_vd (Wasm.validate_otp_wasm_with hmac code secret counter digits algo).
Proof.
  intros Hf. unfold SrcWasm.ValidateOTPWasm, Wasm.validate_otp_wasm_with, SrcWasm.Digits_Int. cbn [rbind].
  destruct (negb (Z.eqb (zlen code) (Z.of_N digits))); [reflexivity|].
  rewrite srcw_DeriveRFC4226Wasm_eq by exact Hf.
  destruct (Wasm.derive_wasm_with hmac secret counter (Z.of_N digits) algo) as [expected|e|]; cbn [lift_oc rbind is_some]; [|reflexivity|reflexivity].
  unfold ct_compare. change GoSem.beqb with Otp.bytes_eqb. destruct (bytes_eqb code expected); reflexivity.
Qed.
