package main

import (
	"encoding/json"
	"fmt"
	"strings"

	"github.com/ja7ad/otp"
)

func init() {
	streams["c18"] = genC18
	streams["c19"] = genC19
}

func fS(name, v string) string      { return name + "~s~" + hxs(v) }
func fI(name string, v any) string  { return fmt.Sprintf("%s~i~%v", name, v) }
func fB(name string, b bool) string { return name + "~b~" + b01(b) }
func fO(name, fields string) string { return name + "~o~" + hxs(fields) }
func obj(fields ...string) string   { return "O:" + strings.Join(fields, ";") }
func join(fields ...string) string  { return strings.Join(fields, ";") }
func rreq(conn, method, path, query, spec string) string {
	return fmt.Sprintf("rreq %s %s %s %s %s", conn, method, hxs(path), hxs(query), spec)
}

func padSecret(r *rng, s string) string {
	switch r.intn(5) {
	case 0:
		return " " + s
	case 1:
		return s + "\n"
	case 2:
		return "\t " + s + "  "
	}
	return s
}

var digitsSpell = []string{"6", "8", "9", "10", "7", "", "06", "ten"}
var algoSpell = []string{"SHA1", "SHA256", "SHA512", "sha256", "MD5", ""}

func spellOf(r *rng, common []string, all []string) string {
	if r.chance(3, 4) {
		return pick(r, common)
	}
	return pick(r, all)
}

// optional field: present with probability 3/4
func opt(r *rng, f string) []string {
	if r.chance(3, 4) {
		return []string{f}
	}
	return nil
}

func suiteFields(c otp.SuiteConfig, hashSpell string) string {
	return join(fS("hash_function", hashSpell), fI("code_digits", c.Digits), fI("challenge_format", int(c.Challenge)),
		fB("include_counter", c.IncludeCounter), fB("include_challenge", c.IncludeChallenge), fB("include_password", c.IncludePassword),
		fB("include_session", c.IncludeSession), fB("include_timestamp", c.IncludeTimestamp), fI("password_hash", int(c.PasswordHash)), fI("timestep", c.TimeStep))
}
func inputFields(in otp.OCRAInput, r *rng) string {
	h := func(b []byte) string {
		s := fmt.Sprintf("%x", b)
		if r.chance(1, 4) {
			s = strings.ToUpper(s)
		}
		return s
	}
	return join(fS("counter_hex", h(in.Counter)), fS("challenge_hex", h(in.Challenge)), fS("password_hex", h(in.Password)),
		fS("session_info_hex", h(in.SessionInfo)), fS("timestamp_hex", h(in.Timestamp)))
}

func restOTP(r *rng, emit func(string)) {
	conn := pick(r, []string{"k", "k", "f"})
	sec, key := genSecret(r)
	if strings.TrimSpace(sec) == "" || !validUTF8(sec) {
		sec, key = "GEZDGNBVGY3TQOJQGEZDGNBVGY3TQOJQ", []byte("12345678901234567890")
	}
	dsp := spellOf(r, []string{"6", "8", "9", "10"}, digitsSpell)
	asp := spellOf(r, []string{"SHA1", "SHA256", "SHA512"}, algoSpell)
	d := otp.DigitsFromStr(dsp).Int()
	a := uint64(otp.AlgorithmFromStr(asp))
	common := append(opt(r, fS("digits", dsp)), opt(r, fS("algorithm", asp))...)
	if !contains(common, "digits~") {
		d = 6
	}
	if !contains(common, "algorithm~") {
		a = 0
	}
	switch r.intn(4) {
	case 0: // totp generate
		per := uint64(pick(r, []int{0, 1, 29, 30, 31, 60, 3600, 86400}))
		ts := genUnix(r, max64(per, 1))
		f := append([]string{fS("secret", padSecret(r, sec))}, common...)
		if r.chance(7, 8) {
			f = append(f, fI("timestamp", ts))
		}
		f = append(f, opt(r, fI("period", per))...)
		emit(rreq(conn, "POST", "/totp/generate", "", obj(f...)))
	case 1: // totp validate
		per := uint64(pick(r, []int{0, 1, 29, 30, 31, 60, 3600}))
		hasPer := r.chance(3, 4)
		eff := per
		if !hasPer || per == 0 {
			eff = 30
		}
		ts := genUnix(r, eff)
		if ts <= 0 {
			ts = 59
		}
		skew := int64(r.intn(13))
		hasSkew := r.chance(3, 4)
		es := skew
		if !hasSkew {
			es = 0
		}
		dist := int64(r.intn(int(2*(es+2)+1))) - (es + 2)
		code := refHOTP(key, uint64(ts)/eff+uint64(dist), d, a)
		if r.chance(1, 6) {
			code = mutateCode(r, code)
		}
		f := append([]string{fS("secret", padSecret(r, sec)), fS("code", code), fI("timestamp", ts)}, common...)
		if hasPer {
			f = append(f, fI("period", per))
		}
		if hasSkew {
			f = append(f, fI("skew", skew))
		}
		emit(rreq(conn, "POST", "/totp/validate", "", obj(f...)))
	case 2: // hotp generate
		c := genCounter(r)
		if r.chance(1, 5) {
			c = 0
		}
		f := append([]string{fS("secret", padSecret(r, sec))}, common...)
		f = append(f, opt(r, fI("counter", c))...)
		emit(rreq(conn, "POST", "/hotp/generate", "", obj(f...)))
	case 3: // hotp validate; sometimes a pair: a request with a window, then one without
		c := genCounter(r)
		skew := int64(r.intn(13))
		hasSkew := r.chance(3, 4)
		es := skew
		if !hasSkew {
			es = 0
		}
		if es > 10 {
			es = 10
		}
		dist := int64(r.intn(int(2*(es+2)+1))) - (es + 2)
		code := refHOTP(key, c+uint64(dist), d, a)
		if r.chance(1, 6) {
			code = mutateCode(r, code)
		}
		f := append([]string{fS("secret", padSecret(r, sec)), fS("code", code), fI("counter", c)}, common...)
		if hasSkew {
			f = append(f, fI("skew", skew))
		}
		emit(rreq(conn, "POST", "/hotp/validate", "", obj(f...)))
		if r.chance(1, 3) { // same connection, no skew field, a neighbour's code: must be judged with the default window
			nb := refHOTP(key, c+uint64(1+r.intn(5)), d, a)
			f2 := append([]string{fS("secret", sec), fS("code", nb), fI("counter", c)}, common...)
			emit(rreq(conn, "POST", pick(r, []string{"/hotp/validate", "/hotp/validate"}), "", obj(f2...)))
			f3 := append([]string{fS("secret", sec), fS("code", refHOTP(key, (c/30)+uint64(1+r.intn(3)), d, a)), fI("timestamp", max64(c, 1))}, common...)
			emit(rreq(conn, "POST", "/totp/validate", "", obj(f3...)))
		}
	}
}

func max64[T ~int64 | ~uint64](a, b T) T {
	if a > b {
		return a
	}
	return b
}
func contains(fs []string, prefix string) bool {
	for _, f := range fs {
		if strings.HasPrefix(f, prefix) {
			return true
		}
	}
	return false
}
func validUTF8(s string) bool {
	b, err := json.Marshal(s)
	if err != nil {
		return false
	}
	var back string
	return json.Unmarshal(b, &back) == nil && back == s
}

func restOCRA(r *rng, emit func(string)) {
	conn := pick(r, []string{"k", "f"})
	names := otp.ListSuites()
	sortStrings(names)
	sec, key := genSecret(r)
	if strings.TrimSpace(sec) == "" || !validUTF8(sec) {
		sec, key = "GEZDGNBVGY3TQOJQGEZDGNBVGY3TQOJQ", []byte("12345678901234567890")
	}
	var c otp.SuiteConfig
	var f []string
	hashSp := ""
	mode := r.intn(6)
	switch mode {
	case 0, 1, 2: // registered raw suite
		name := pick(r, names)
		c = otp.SuiteConfigFromRaws(name)
		c.Raw = name
		f = append(f, fS("raw_suite", name))
	case 3, 4: // structured suite
		c = genSuite(r, !r.chance(1, 6))
		c.Raw = ""
		if c.Hash > 2 {
			c.Hash = 0
		}
		hashSp = []string{"SHA1", "SHA256", "SHA512"}[c.Hash]
		f = append(f, fO("suite", suiteFields(c, hashSp)))
	case 5: // both: the raw suite wins
		name := pick(r, names)
		c2 := genSuite(r, true)
		if c2.Hash > 2 {
			c2.Hash = 0
		}
		f = append(f, fS("raw_suite", name), fO("suite", suiteFields(c2, []string{"SHA1", "SHA256", "SHA512"}[c2.Hash])))
		c = otp.SuiteConfigFromRaws(name)
		c.Raw = name
	}
	in := genInput(r, c, !r.chance(1, 6))
	f = append(f, fS("secret", sec), fO("input", inputFields(in, r)))
	if r.chance(1, 2) {
		emit(rreq(conn, "POST", "/ocra/generate", "", obj(f...)))
		return
	}
	code := refCode(key, ocraMsg(c, in), c.Digits, uint64(c.Hash))
	if r.chance(1, 4) {
		code = mutateCode(r, code)
	}
	f = append(f, fS("code", code))
	emit(rreq(conn, "POST", "/ocra/validate", "", obj(f...)))
}

func genC18(r *rng, n int, emit func(string)) {
	emit(rreq("k", "GET", "/", "", "-"))
	emit(rreq("k", "GET", "/ocra/suites", "", "-"))
	emit(rreq("f", "GET", "/docs", "", "-"))
	emit(rreq("f", "GET", "/docs/index.html", "", "-")) // the documentation pages of the swagger handler
	for _, a := range []string{"", "algorithm=SHA1", "algorithm=SHA256", "algorithm=SHA512", "algorithm=sha512", "algorithm=MD5"} {
		emit(rreq("k", "GET", "/otp/secret", a, "-"))
	}
	names := otp.ListSuites()
	sortStrings(names)
	for _, nm := range names {
		emit(rreq("k", "POST", "/ocra/suite", "", obj(fS("raw_suite", nm))))
	}
	for _, nm := range []string{"", " ", "OCRA-1:HOTP-SHA1-6:QN08 ", " OCRA-1:HOTP-SHA1-6:QN08", "OCRA-1:HOTP-SHA1-6:QN08\n", "OCRA-1:HOTP-SHA1-7:QN08", "ocra-1:hotp-sha1-6:qn08", "x"} {
		emit(rreq("k", "POST", "/ocra/suite", "", obj(fS("raw_suite", nm))))
		emit(rreq("k", "POST", "/ocra/generate", "", obj(fS("raw_suite", nm), fS("secret", "GEZDGNBVGY3TQOJQGEZDGNBVGY3TQOJQ"), fO("input", fS("challenge_hex", "3131313131313131")))))
	}
	var burst []string
	for i := 0; i < n; i++ {
		collect := func(s string) {
			emit(s)
			if len(burst) < 24 && r.chance(1, 4) {
				burst = append(burst, s)
			}
		}
		switch r.intn(8) {
		case 0, 1, 2, 3:
			restOTP(r, collect)
		case 4, 5:
			restOCRA(r, collect)
		case 6:
			ty := pick(r, []string{"totp", "hotp", "totp", "hotp", "TOTP", "x"})
			iss, acc := urlString(r, 3, true), urlString(r, 3, false)
			if !validUTF8(iss) || !validUTF8(acc) {
				iss, acc = "My Company", "alice@example.com"
			}
			sec, _ := genSecret(r)
			if !validUTF8(sec) {
				sec = "JBSWY3DPEHPK3PXP"
			}
			f := []string{fS("type", ty), fS("issuer", iss), fS("account_name", acc), fS("secret", sec)}
			f = append(f, opt(r, fS("digits", pick(r, digitsSpell)))...)
			f = append(f, opt(r, fS("algorithm", pick(r, algoSpell)))...)
			f = append(f, opt(r, fI("period", pick(r, []int{0, 30, 60, 1})))...)
			collect(rreq(pick(r, []string{"k", "f"}), "POST", "/otp/url", "", obj(f...)))
		case 7:
			collect(rreq("k", "POST", "/ocra/suite", "", obj(fS("raw_suite", pick(r, names)))))
		}
		if len(burst) == 24 {
			emit("rburst " + hxs(strings.Join(burst, "\n")))
			burst = burst[:0]
		}
	}
}

// ---- C19: hostile requests interleaved with probes ----
var postPaths = []string{"/totp/generate", "/totp/validate", "/hotp/generate", "/hotp/validate", "/ocra/generate", "/ocra/validate", "/ocra/suite", "/otp/url"}

func rawBody(s string) string {
	if !json.Valid([]byte(s)) {
		return "M:" + hxs(s)
	}
	t := strings.TrimSpace(s)
	if t == "null" || strings.ReplaceAll(strings.ReplaceAll(t, " ", ""), "\n", "") == "{}" {
		return "Z:" + hxs(s)
	}
	if strings.HasPrefix(t, "{") {
		return "" // a non-empty object given as raw text: not used
	}
	return "N:" + hxs(s)
}

func genC19(r *rng, n int, emit func(string)) {
	probe := func() {
		emit(rreq("k", "POST", "/hotp/generate", "", obj(fS("secret", "GEZDGNBVGY3TQOJQGEZDGNBVGY3TQOJQ"), fI("counter", 1))))
		emit(rreq("k", "POST", "/totp/validate", "", obj(fS("secret", "GEZDGNBVGY3TQOJQGEZDGNBVGY3TQOJQ"), fS("code", "287082"), fI("timestamp", 59), fI("skew", 0))))
	}
	raws := []string{"", " ", "{", "}", "{\"secret\":", "{\"secret\":\"x\",}", "{'secret':'x'}", "[", "[]", "[1,2]", "\"str\"", "3", "-0", "1e999", "true", "null", " null ", "{}", " { } ", "nul", "{\"a\":1}{\"b\":2}",
		"{\"secret\":\"\\ud800\"}x", "\x00", "\xff\xfe", "{\"secret\":\"\x01\"}", strings.Repeat("[", 20000), "{\"secret\":\"" + strings.Repeat("A", 100000), strings.Repeat(" ", 50000) + "{}", "\ufeff{}"}
	for _, p := range postPaths {
		for _, b := range raws {
			if spec := rawBody(b); spec != "" {
				emit(rreq(pick(r, []string{"k", "f"}), "POST", p, "", spec))
			}
		}
		emit(rreq("k", "POST", p, "", "-"))
		for _, m := range []string{"GET", "PUT", "DELETE", "PATCH", "OPTIONS"} {
			emit(rreq("k", m, p, "", obj(fS("secret", "GEZDGNBVGY3TQOJQ"))))
		}
		probe()
	}
	for _, p := range []string{"/", "/ocra/suites", "/otp/secret"} {
		for _, m := range []string{"POST", "PUT", "DELETE"} {
			emit(rreq("k", m, p, "", obj()))
		}
	}
	for _, p := range []string{"/x", "/totp", "/totp/generate/", "/TOTP/GENERATE", "/hotp/generat", "/ocra", "/otp/url/x", "/favicon.ico", "/docs"} {
		emit(rreq("k", pick(r, []string{"GET", "POST"}), p, "", obj()))
	}
	// every field with every JSON kind
	fieldsOf := map[string][]string{
		"/totp/generate": {"secret", "timestamp", "counter", "digits", "period", "algorithm"},
		"/totp/validate": {"secret", "timestamp", "counter", "code", "digits", "period", "skew", "algorithm"},
		"/hotp/generate": {"secret", "timestamp", "counter", "digits", "period", "algorithm"},
		"/hotp/validate": {"secret", "timestamp", "counter", "code", "digits", "period", "skew", "algorithm"},
		"/ocra/generate": {"secret", "raw_suite", "suite", "input"},
		"/ocra/validate": {"secret", "code", "raw_suite", "suite", "input"},
		"/ocra/suite":    {"raw_suite"},
		"/otp/url":       {"type", "secret", "issuer", "account_name", "period", "digits", "algorithm"},
	}
	base := map[string][]string{
		"/totp/generate": {fS("secret", "GEZDGNBVGY3TQOJQGEZDGNBVGY3TQOJQ"), fI("timestamp", 59)},
		"/totp/validate": {fS("secret", "GEZDGNBVGY3TQOJQGEZDGNBVGY3TQOJQ"), fS("code", "287082"), fI("timestamp", 59)},
		"/hotp/generate": {fS("secret", "GEZDGNBVGY3TQOJQGEZDGNBVGY3TQOJQ"), fI("counter", 1)},
		"/hotp/validate": {fS("secret", "GEZDGNBVGY3TQOJQGEZDGNBVGY3TQOJQ"), fS("code", "287082"), fI("counter", 1)},
		"/ocra/generate": {fS("secret", "GEZDGNBVGY3TQOJQGEZDGNBVGY3TQOJQ"), fS("raw_suite", "OCRA-1:HOTP-SHA1-6:QN08"), fO("input", fS("challenge_hex", "3131313131313131"))},
		"/ocra/validate": {fS("secret", "GEZDGNBVGY3TQOJQGEZDGNBVGY3TQOJQ"), fS("code", "243178"), fS("raw_suite", "OCRA-1:HOTP-SHA1-6:QN08"), fO("input", fS("challenge_hex", "3131313131313131"))},
		"/ocra/suite":    {fS("raw_suite", "OCRA-1:HOTP-SHA1-6:QN08")},
		"/otp/url":       {fS("type", "totp"), fS("secret", "JBSWY3DPEHPK3PXP"), fS("issuer", "Ex"), fS("account_name", "a@b")},
	}
	kinds := []string{"~s~" + hxs("x"), "~s~" + hxs(""), "~s~" + hxs("   "), "~i~0", "~i~1", "~i~-1", "~i~255", "~i~9223372036854775807", "~i~9223372036854775808", "~i~-9223372036854775808", "~i~-9223372036854775809",
		"~i~18446744073709551615", "~i~18446744073709551616", "~i~99999999999999999999999999", "~r~1.5", "~r~1e3", "~r~1.0", "~r~-0.0", "~b~1", "~b~0", "~n~", "~a~", "~o~" + hxs(""), "~o~" + hxs("x~i~1")}
	for _, p := range postPaths {
		for _, fn := range fieldsOf[p] {
			for _, k := range kinds {
				var f []string
				for _, b := range base[p] {
					if !strings.HasPrefix(b, fn+"~") {
						f = append(f, b)
					}
				}
				name := fn
				if r.chance(1, 10) {
					name = strings.ToUpper(fn)
				}
				emit(rreq(pick(r, []string{"k", "f"}), "POST", p, "", obj(append(f, name+k)...)))
			}
		}
		probe()
	}
	// OCRA input fields that are not hexadecimal (each field in turn, odd length, a non-hex digit), on both endpoints
	for _, fld := range []string{"counter_hex", "challenge_hex", "password_hex", "session_info_hex", "timestamp_hex"} {
		for _, bad := range []string{"3", "zz", "31 31", "0x31"} {
			in := fS(fld, bad)
			if fld != "challenge_hex" {
				in = join(fS("challenge_hex", "3131313131313131"), in)
			}
			emit(rreq("k", "POST", "/ocra/generate", "", obj(fS("secret", "GEZDGNBVGY3TQOJQGEZDGNBVGY3TQOJQ"), fS("raw_suite", "OCRA-1:HOTP-SHA1-6:QN08"), fO("input", in))))
			emit(rreq("k", "POST", "/ocra/validate", "", obj(fS("secret", "GEZDGNBVGY3TQOJQGEZDGNBVGY3TQOJQ"), fS("code", "243178"), fS("raw_suite", "OCRA-1:HOTP-SHA1-6:QN08"), fO("input", in))))
		}
	}
	probe()
	// keys that belong to another endpoint's request (encoding/json ignores a key the struct has no field for, whatever
	// its value is), with one value of every JSON kind
	allFields := []string{"secret", "timestamp", "counter", "code", "digits", "period", "skew", "algorithm", "raw_suite", "suite", "input", "type", "issuer", "account_name", "details", "valid"}
	for _, p := range postPaths {
		own := map[string]bool{}
		for _, fn := range fieldsOf[p] {
			own[fn] = true
		}
		for _, fn := range allFields {
			if own[fn] {
				continue
			}
			for _, k := range []string{"~s~" + hxs("x"), "~i~5", "~i~-1", "~r~1.5", "~b~1", "~n~", "~a~", "~o~" + hxs("x~i~1")} {
				emit(rreq(pick(r, []string{"k", "f"}), "POST", p, "", obj(append(append([]string{}, base[p]...), fn+k)...)))
			}
		}
		probe()
	}
	// skew and period (counter and skew) that only look acceptable after they have been multiplied or added
	for _, ab := range wrapPairs() {
		for _, sp := range [][2]uint64{{ab[0], ab[1]}, {ab[1], ab[0]}} {
			emit(rreq("k", "POST", "/totp/validate", "", obj(fS("secret", "GEZDGNBVGY3TQOJQGEZDGNBVGY3TQOJQ"), fS("code", "00000a"), fI("timestamp", 59), fmt.Sprintf("skew~i~%d", sp[0]), fmt.Sprintf("period~i~%d", sp[1]))))
			emit(rreq("k", "POST", "/hotp/validate", "", obj(fS("secret", "GEZDGNBVGY3TQOJQGEZDGNBVGY3TQOJQ"), fS("code", "00000a"), fmt.Sprintf("skew~i~%d", sp[0]), fmt.Sprintf("counter~i~%d", sp[1]))))
		}
		probe()
	}
	// extreme numbers where they matter: skew, period, counter, timestamp
	for _, sk := range []string{"11", "255", "4294967296", "9223372036854775807", "18446744073709551615"} {
		emit(rreq("k", "POST", "/totp/validate", "", obj(fS("secret", "GEZDGNBVGY3TQOJQGEZDGNBVGY3TQOJQ"), fS("code", "000000"), fI("timestamp", 59), "skew~i~"+sk)))
		emit(rreq("k", "POST", "/hotp/validate", "", obj(fS("secret", "GEZDGNBVGY3TQOJQGEZDGNBVGY3TQOJQ"), fS("code", "000000"), fI("counter", 5), "skew~i~"+sk)))
		probe()
	}
	for _, c := range []string{"18446744073709551615", "18446744073709551614", "18446744073709551605", "9223372036854775808"} {
		for _, sk := range []string{"0", "1", "10"} {
			emit(rreq("k", "POST", "/hotp/validate", "", obj(fS("secret", "GEZDGNBVGY3TQOJQGEZDGNBVGY3TQOJQ"), fS("code", "9999999999"), fS("digits", "10"), "counter~i~"+c, "skew~i~"+sk)))
		}
		emit(rreq("k", "POST", "/hotp/generate", "", obj(fS("secret", "GEZDGNBVGY3TQOJQGEZDGNBVGY3TQOJQ"), "counter~i~"+c)))
	}
	for _, per := range []string{"1", "4294967296", "18446744073709551615"} {
		emit(rreq("k", "POST", "/totp/generate", "", obj(fS("secret", "GEZDGNBVGY3TQOJQGEZDGNBVGY3TQOJQ"), fI("timestamp", 59), "period~i~"+per)))
		emit(rreq("k", "POST", "/totp/validate", "", obj(fS("secret", "GEZDGNBVGY3TQOJQGEZDGNBVGY3TQOJQ"), fS("code", "755224"), fI("timestamp", 59), "period~i~"+per, fI("skew", 10))))
	}
	emit(rreq("k", "POST", "/totp/generate", "", obj(fS("secret", "GEZDGNBVGY3TQOJQGEZDGNBVGY3TQOJQ"), "timestamp~i~9223372036854775807")))
	// contradictory / unknown suites; suites that make MustRawSuite panic behind a structured suite
	st := suiteFields(otp.SuiteConfig{Digits: 6, Challenge: 1, IncludeChallenge: true}, "SHA1")
	for _, raw := range []string{" ", "\t", "OCRA-1:HOTP-SHA1-6:QN08", "nope"} {
		emit(rreq("k", "POST", "/ocra/generate", "", obj(fS("secret", "GEZDGNBVGY3TQOJQGEZDGNBVGY3TQOJQ"), fS("raw_suite", raw), fO("suite", st), fO("input", fS("challenge_hex", "3131313131313131")))))
		emit(rreq("k", "POST", "/ocra/validate", "", obj(fS("secret", "GEZDGNBVGY3TQOJQGEZDGNBVGY3TQOJQ"), fS("code", "243178"), fS("raw_suite", raw), fO("suite", st), fO("input", fS("challenge_hex", "3131313131313131")))))
		probe()
	}
	big := strings.Repeat("A", 200000)
	emit(rreq("f", "POST", "/hotp/generate", "", obj(fS("secret", big[:16000])))) // the model's decoder is quadratic in the secret
	emit(rreq("f", "POST", "/hotp/validate", "", obj(fS("secret", "GEZDGNBVGY3TQOJQGEZDGNBVGY3TQOJQ"), fS("code", big))))
	emit(rreq("f", "POST", "/ocra/generate", "", obj(fS("secret", "GEZDGNBVGY3TQOJQGEZDGNBVGY3TQOJQ"), fS("raw_suite", "OCRA-1:HOTP-SHA1-6:QN08"), fO("input", fS("challenge_hex", strings.Repeat("ab", 60000))))))
	probe()
	for i := 0; i < n; i++ {
		switch r.intn(4) {
		case 0:
			restOTP(r, emit)
		case 1:
			restOCRA(r, emit)
		case 2:
			p := pick(r, postPaths)
			var f []string
			for _, fn := range fieldsOf[p] {
				if r.chance(2, 3) {
					f = append(f, fn+pick(r, kinds))
				}
			}
			emit(rreq(pick(r, []string{"k", "f"}), "POST", p, "", obj(f...)))
		case 3:
			probe()
		}
	}
}
