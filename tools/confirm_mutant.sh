#!/bin/sh
# confirm_mutant.sh <seeded-dir>: in a scratch worktree of /repo's HEAD confirm that the patch applies, builds,
# passes the existing suite, and that the demonstration fails with it and passes without it.
# Prints one line: <id> apply=ok build=ok suite=pass demo_with=FAIL demo_without=PASS
D=$(cd "$1" && pwd); ID=$(basename "$D")
WT=/tmp/mutwt-$ID-$$
git -C /repo worktree add -q --detach "$WT" HEAD || exit 2
cleanup() { git -C /repo worktree remove --force "$WT" >/dev/null 2>&1; }
trap cleanup EXIT
cd "$WT"
TAGS="c08demo c13demo mutantdemo seeddemo"
A=ok; git apply "$D/patch.diff" 2>/dev/null || A=FAIL
B=ok; (go build ./... && cd internal/app && go build ./...) >/dev/null 2>&1 || B=FAIL
S=pass; (go test -vet=off -count=1 ./... && cd internal/app && go test -vet=off -count=1 ./...) >/dev/null 2>&1 || S=FAIL
cp "$D/demo_test.go" ./zz_seed_demo_test.go
W=PASS; go test -vet=off -count=1 -tags "$TAGS" . >/tmp/mutwt-$ID-with.log 2>&1 || W=FAIL
git checkout -q -- . 
O=PASS; go test -vet=off -count=1 -tags "$TAGS" . >/tmp/mutwt-$ID-without.log 2>&1 || O=FAIL
rm -f zz_seed_demo_test.go
echo "$ID apply=$A build=$B suite=$S demo_with=$W demo_without=$O"
rm -f /tmp/mutwt-$ID-with.log /tmp/mutwt-$ID-without.log
