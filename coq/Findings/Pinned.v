(** The pinned tree's variants of functions that were repaired by a "fix:" commit, and for each a
    concrete witness (by computation) that the property is false of that variant — the findings of
    DESIGN.md section 7 as theorems.  Nothing here is used by a property theorem. *)
From Coq Require Import String.
From OtpV Require Import Prelude Sha Tables Errors Decoder Derive Otp Ocra Utils Suite Url Rfc4226.
Open Scope N_scope.

Definition rfc_key : bytes := s2b "12345678901234567890".
Definition rfc_secret : bytes := s2b "GEZDGNBVGY3TQOJQGEZDGNBVGY3TQOJQ".

(** F1 — mod10[10] was 10^9 *)
Definition mod10_pinned : list N := [0; 10; 100; 1000; 10000; 100000; 1000000; 10000000; 100000000; 1000000000; 1000000000].
Definition derive_pinned (key : bytes) (counter : N) (digits : nat) : outcome bytes :=
  obind (truncate (hmac SHA1 key (put_uint64 counter)) (nth digits mod10_pinned 0)) (fun otp => long_digit otp (Z.of_nat digits)).
Theorem F1_refuted : exists key c, derive_pinned key c 10 <> Ok (hotp_value hmac SHA1 key c 10).
Proof. exists rfc_key, 0. vm_compute. discriminate. Qed.
Example F1_values : derive_pinned rfc_key 0 10 = Ok (s2b "0284755224") /\ hotp_value hmac SHA1 rfc_key 0 10 = s2b "1284755224".
Proof. vm_compute. split; reflexivity. Qed.

(** F2 / F3 — digits 0, 11 and period 0 reached a division by zero / an index out of range *)
Definition derive_unchecked (key : bytes) (counter : N) (digits : Z) : outcome bytes :=
  obind (mod10_at digits) (fun md => obind (truncate (hmac SHA1 key (put_uint64 counter)) md) (fun otp => long_digit otp digits)).
Theorem F2_refuted : derive_unchecked rfc_key 0 0 = Panic /\ derive_unchecked rfc_key 0 11 = Panic.
Proof. vm_compute. split; reflexivity. Qed.
Theorem F3_refuted : time_counter 59 0 = Panic.
Proof. reflexivity. Qed.

(** F4 — ValidateTOTP had no bound on the skew: the work grows with a request parameter *)
Definition validate_totp_pinned (secret code : bytes) (unix : Z) (p : param) : outcome verdict * nat :=
  match decode_secret secret with
  | Ok key => match time_counter unix (if p_period p =? 0 then 30 else p_period p) with
              | Ok counter => totp_loop hmac (offsets (p_skew p)) code key counter (p_digits p) (p_alg p) O
              | _ => (Panic, O)
              end
  | _ => (Panic, O)
  end.
Theorem F4_refuted : exists p, (21 < snd (validate_totp_pinned rfc_secret (s2b "000000") 3000 p))%nat.
Proof. exists (mkParam 6 30 12 0). vm_compute. repeat constructor. Qed.

(** F5 — the underflow guard compared as int64: no backward window for counters >= 2^63 *)
Fixpoint hotp_loop_pinned (offs : list Z) (code key : bytes) (counter digits algo : N) : bool :=
  match offs with
  | [] => false
  | i :: rest =>
    if (i <? 0)%Z && (to_int64 counter <? - i)%Z then hotp_loop_pinned rest code key counter digits algo
    else
      let c := if (i <? 0)%Z then sub64 counter (of_int64 (- i)) else wrap64 (counter + of_int64 i) in
      match validate_rfc4226 hmac code key c digits algo with
      | (Ok (true, None), _) => true
      | _ => hotp_loop_pinned rest code key counter digits algo
      end
  end.
Theorem F5_refuted :
  let c := 9223372036854775813 in
  hotp_loop_pinned (offsets 1) (hotp_value hmac SHA1 rfc_key (c - 1) 6) rfc_key c 6 0 = false /\
  fst (validate_hotp rfc_secret (hotp_value hmac SHA1 rfc_key (c - 1) 6) c (Some (mkParam 6 0 1 0))) = Ok (true, None).
Proof. vm_compute. split; reflexivity. Qed.

(** F7 — narrowing conversions in ParseOTPAuthURL: digits=262 became 6, period=-1 became 2^64-1 *)
Definition narrow_digits (z : Z) : N := Z.to_N (z mod 256).
Definition narrow_period (z : Z) : N := of_int64 z.
Theorem F7_refuted : narrow_digits 262 = 6 /\ narrow_period (-1) = 18446744073709551615.
Proof. vm_compute. split; reflexivity. Qed.

(** F11 — the suite parser matched the version by prefix and ignored a fourth part *)
Definition accepts_version_pinned (v : bytes) : bool := is_prefix (s2b "OCRA-1") v.
Theorem F11_refuted : accepts_version_pinned (s2b "OCRA-10") = true.
Proof. reflexivity. Qed.

(** F13 — the time-step product wrapped around 2^64 *)
Theorem F13_refuted : mul_int 5124095576030432 3600 = 3584%Z.
Proof. vm_compute. reflexivity. Qed.
