(** C19 — the REST service answers every request promptly and keeps serving.
    What a Gallina model can carry of this property: for every request — any method, any path, a
    malformed body, a non-object body, an object with any kind of value in any field — the handler
    (under the recovery middleware) produces a response whose status is one of 200, 302, 400, 404,
    405, 500; the status is 200 exactly when the body is a success body (so status distinguishes
    success from failure); and the library work behind one request is at most 21 HMAC derivations,
    whatever skew, period, counter or timestamp the request carries.  That the response is a
    function of the request (and the clock) only is the model's signature; sockets, timeouts, the
    1 MiB limit and process liveness are fasthttp's / the runtime's and are observed by the harness. *)
From Coq Require Import String.
From OtpV Require Import Prelude Errors Rest RestProofs Flow Mem SsaNative.
Open Scope N_scope.

Theorem C19_every_request_is_answered : forall now r,
  let x := handle now r in
  status_ok (status (fst x)) /\ (status (fst x) = 200 <-> success_payload (pay (fst x))) /\ (snd x <= 21)%nat.
Proof. exact handle_good. Qed.
Print Assumptions C19_every_request_is_answered.

Theorem C19_bounded_work : forall now r, (snd (handle now r) <= 21)%nat.
Proof. intros now r. apply (handle_good now r). Qed.
Print Assumptions C19_bounded_work.

(** malformed JSON, a body that is not an object, a missing body: 400 on every POST endpoint *)
Theorem C19_malformed_body : forall now path b, (b = BMalformed \/ b = BNonObject) ->
  In path ["/totp/generate"; "/totp/validate"; "/hotp/generate"; "/hotp/validate"; "/ocra/generate"; "/ocra/validate"; "/ocra/suite"; "/otp/url"]%string ->
  handle now (mkReq (s2b "POST") (s2b path) [] b) = (mkResp 400 (PError (s2b "failed to decode body")), O).
Proof.
  intros now path b Hb Hp. cbn [In] in Hp.
  repeat (destruct Hp as [<-|Hp]; [destruct Hb as [-> | ->]; vm_compute; reflexivity|]). contradiction.
Qed.
Print Assumptions C19_malformed_body.

(** a skew beyond the maximum is refused without any derivation (the request parameter that made
    the pinned tree loop) *)
Example C19_huge_skew :
  handle 0%Z (post "/totp/validate" [(s2b "secret", JvStr (s2b "GEZDGNBVGY3TQOJQ")); (s2b "code", JvStr (s2b "000000"));
                                    (s2b "timestamp", JvInt 59); (s2b "skew", JvInt 18446744073709551615)])
  = (mkResp 200 (PValid false), O).
Proof. vm_compute. reflexivity. Qed.

(** "continues to answer subsequent well-formed requests correctly": no request can leave anything behind — outside
    package initialisation nothing writes memory reachable from a package-level variable (a lock left held, a table, a
    cache), decided on the SSA facts regenerated from the code *)
Theorem C19_stateless : Flow.mem_ok SsaNative.mem_facts = true.
Proof. vm_compute. reflexivity. Qed.
Print Assumptions C19_stateless.
