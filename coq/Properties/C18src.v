(** C18 over the Go source: the REST handlers as translated from internal/app/api (Generated/SrcRest.v) answer, for
    precisely the fields of the request, what the library's functions as translated (Generated/Src.v) return; the
    router sends every path to its handler; the answers of the whole service are the model's (on which the theorems of
    Properties/C18.v are stated).  The JSON decoder and printer are generated from the struct tags of dto.go over the
    model's reading of encoding/json (RestSem.v). *)
From Coq Require Import String.
From OtpV Require Import Prelude Sha GoSem Rfc4648 Errors Decoder Derive Otp Ocra Utils Random Suite Url Rest RestSem Src SrcRest
     SrcLift SrcTop SrcEqHotp SrcEqTotp SrcEqRest.
Open Scope N_scope.

(** every request: the translated router answers what the model's service answers (status and JSON tree), and panics
    exactly where the model has the Recovery middleware answer; the two endpoints whose payload the model does not
    hold (the fresh secret, the home page) are stated below *)
Theorem C18src_service : forall fuel jr j4 j6 c, rest_runs fuel c -> length j4 = 8%nat ->
  beqb (r_path (cx_req c)) (s2b "/otp/secret") = false -> beqb (r_path (cx_req c)) (s2b "/") = false ->
  SrcRest.routers fuel jr j4 j6 c = lift_rest c (Rest.handle (cx_now c) (cx_req c)).
Proof. exact src_routers_eq. Qed.
Print Assumptions C18src_service.

Theorem C18src_secret : forall junk c, (64 <= length junk)%nat ->
  SrcRest.generateRandomSecret junk c =
  (if is_get (cx_req c) then
     let a := algorithm_from_str (r_query_alg (cx_req c)) in
     match Random.secret_size a with
     | Some n => Val (answer c 200 (OObj [(s2b "secret", OStr (b32_nopad (firstn n junk))); (s2b "algorithm", OStr (alg_string a))]))
     | None => Val (answer c 500 (err_json 500 (s2b "failed to generate secret")))
     end
   else lift_rest c not_allowed).
Proof. intros junk c H. exact (proj1 (src_generateRandomSecret_eq junk c H)). Qed.
Print Assumptions C18src_secret.

(** /hotp/generate: the code is the library's for the request's secret, counter, digits and hash *)
Theorem C18src_hotp_generate : forall fuel junk c f q, rest_runs fuel c -> length junk = 8%nat ->
  is_post (cx_req c) = true -> r_body (cx_req c) = BObject f -> decode_gen_req f = Some q -> blank (g_secret q) = false ->
  (length (g_secret q) < fuel)%nat -> small (g_secret q) ->
  SrcRest.hotpGeneration fuel junk c =
  match Src.GenerateHOTP fuel junk (g_secret q) (g_counter q) (Some (mkParam (digits_from_str (g_digits q)) 0 0 (algorithm_from_str (g_algorithm q)))) with
  | Val (code, None) => Val (answer c 200 (OObj ([(s2b "code", OStr code)] ++ omit_int "counter" (Z.of_N (g_counter q)))))
  | Val (_, Some _) => Val (answer c 500 (err_json 500 (s2b "hotp generation failed")))
  | _ => Pnc
  end.
Proof.
  intros fuel junk c f q Hr Hj Hp Hb Hq Hbl Hl Hs. rewrite src_hotpGeneration_eq by assumption.
  unfold Rest.hotp_generation. rewrite Hp, Hb. cbn [negb body_fields]. rewrite Hq. unfold hotp_generation_core. rewrite Hbl.
  destruct Hr as [Hf _]. rewrite src_GenerateHOTP_eq by (assumption || lia).
  destruct (generate_hotp _ _ _) as [code|e|]; cbn [lift_oc]; try reflexivity.
  destruct (g_counter q); reflexivity.
Qed.
Print Assumptions C18src_hotp_generate.

(** /hotp/validate: the verdict is the library's for the request's secret, code, counter, digits, skew and hash *)
Theorem C18src_hotp_validate : forall fuel junk c f q, rest_runs fuel c -> length junk = 8%nat ->
  is_post (cx_req c) = true -> r_body (cx_req c) = BObject f -> decode_val_req f = Some q ->
  blank (v_secret q) = false -> blank (v_code q) = false -> (length (v_secret q) < fuel)%nat -> small (v_secret q) ->
  SrcRest.hotpValidation fuel junk c =
  match Src.ValidateHOTP fuel junk (v_secret q) (v_code q) (v_counter q) (Some (mkParam (digits_from_str (v_digits q)) 0 (v_skew q) (algorithm_from_str (v_algorithm q)))) with
  | Val (b, _) => Val (answer c 200 (OObj [(s2b "valid", OBool b)]))
  | _ => Pnc
  end.
Proof.
  intros fuel junk c f q Hr Hj Hp Hb Hq Hbl Hbc Hl Hs. rewrite src_hotpValidation_eq by assumption.
  unfold Rest.hotp_validation. rewrite Hp, Hb. cbn [negb body_fields]. rewrite Hq. unfold hotp_validation_core. rewrite Hbl, Hbc.
  destruct Hr as [Hf _]. rewrite src_ValidateHOTP_eq by (assumption || lia). cbv zeta.
  match goal with |- context [validate_hotp ?s ?cd ?t ?p] => destruct (validate_hotp_ok s cd t p) as [b [e Hok]] end.
  unfold lift_v, verdict_bool. rewrite Hok. reflexivity.
Qed.
Print Assumptions C18src_hotp_validate.

(** /totp/generate: the code is the library's at the request's instant (or the clock's when none is given), with the
    documented default period, for the trimmed secret *)
Theorem C18src_totp_generate : forall fuel junk c f q, rest_runs fuel c -> length junk = 8%nat ->
  is_post (cx_req c) = true -> r_body (cx_req c) = BObject f -> decode_gen_req f = Some q -> blank (g_secret q) = false ->
  (length (g_secret q) < fuel)%nat -> small (g_secret q) ->
  let t := if (0 <? g_timestamp q)%Z then g_timestamp q else cx_now c in
  let per := if g_period q =? 0 then 30 else g_period q in
  SrcRest.totpGeneration fuel junk c =
  match Src.GenerateTOTP fuel junk (trim_space (g_secret q)) t (Some (mkParam (digits_from_str (g_digits q)) per 0 (algorithm_from_str (g_algorithm q)))) with
  | Val (code, None) => Val (answer c 200 (OObj ([(s2b "code", OStr code)] ++ omit_int "timestamp" t)))
  | Val (_, Some _) => Val (answer c 500 (err_json 500 (s2b "totp generation failed")))
  | _ => Pnc
  end.
Proof.
  intros fuel junk c f q Hr Hj Hp Hb Hq Hbl Hl Hs t per. rewrite src_totpGeneration_eq by assumption.
  unfold Rest.totp_generation. rewrite Hp, Hb. cbn [negb body_fields]. rewrite Hq. unfold totp_generation_core. rewrite Hbl.
  destruct Hr as [Hf _]. destruct (trim_space_small fuel (g_secret q) (conj Hl Hs)) as [Hl' Hs'].
  fold t. fold per. rewrite src_GenerateTOTP_eq by (assumption || lia).
  destruct (generate_totp _ _ _) as [code|e|]; cbn [lift_oc]; try reflexivity.
  unfold lift_rest. cbn [fst is_recovered pay status pay_json option_map opt_int opt_str]. unfold omit_int. destruct (t =? 0)%Z; reflexivity.
Qed.
Print Assumptions C18src_totp_generate.

Theorem C18src_totp_validate : forall fuel junk c f q, rest_runs fuel c -> length junk = 8%nat ->
  is_post (cx_req c) = true -> r_body (cx_req c) = BObject f -> decode_val_req f = Some q ->
  blank (v_secret q) = false -> blank (v_code q) = false -> (length (v_secret q) < fuel)%nat -> small (v_secret q) ->
  let t := if (0 <? v_timestamp q)%Z then v_timestamp q else cx_now c in
  SrcRest.totpValidation fuel junk c =
  match Src.ValidateTOTP fuel junk (trim_space (v_secret q)) (v_code q) t (Some (mkParam (digits_from_str (v_digits q)) (v_period q) (v_skew q) (algorithm_from_str (v_algorithm q)))) with
  | Val (b, _) => Val (answer c 200 (OObj [(s2b "valid", OBool b)]))
  | _ => Pnc
  end.
Proof.
  intros fuel junk c f q Hr Hj Hp Hb Hq Hbl Hbc Hl Hs t. rewrite src_totpValidation_eq by assumption.
  unfold Rest.totp_validation. rewrite Hp, Hb. cbn [negb body_fields]. rewrite Hq. unfold totp_validation_core. rewrite Hbl, Hbc.
  destruct Hr as [Hf _]. destruct (trim_space_small fuel (v_secret q) (conj Hl Hs)) as [Hl' Hs'].
  fold t. rewrite src_ValidateTOTP_eq by (assumption || lia). cbv zeta.
  match goal with |- context [validate_totp ?s ?cd ?tt ?p] => destruct (validate_totp_ok s cd tt p) as [b [e Hok]] end.
  unfold lift_v, verdict_bool. rewrite Hok. reflexivity.
Qed.
Print Assumptions C18src_totp_validate.

(** the OCRA endpoints and the URL endpoint answer what the model answers, for every request *)
Theorem C18src_ocra : forall fuel junk c, rest_runs fuel c ->
  SrcRest.ocraGeneration fuel junk c = lift_rest c (Rest.ocra_generation (cx_req c)) /\
  SrcRest.ocraValidation fuel junk c = lift_rest c (Rest.ocra_validation (cx_req c)) /\
  SrcRest.otpURLGeneration fuel c = lift_rest c (Rest.otp_url_generation (cx_req c)) /\
  SrcRest.ocraSuiteConfig c = lift_rest c (Rest.ocra_suite_config (cx_req c)) /\
  SrcRest.listOCRASuites fuel c = lift_rest c (Rest.list_ocra_suites (cx_req c)).
Proof.
  intros fuel junk c Hr. split; [apply src_ocraGeneration_eq; exact Hr|]. split; [apply src_ocraValidation_eq; exact Hr|].
  split; [apply src_otpURLGeneration_eq; exact Hr|]. split; [apply (src_ocraSuiteConfig_eq fuel); exact Hr|]. apply src_listOCRASuites_eq.
Qed.
Print Assumptions C18src_ocra.

(** the hypotheses are met: a request of the RFC 6238 test secret through the translated router *)
Example C18src_vector :
  let f := [(s2b "secret", JvStr (s2b " GEZDGNBVGY3TQOJQGEZDGNBVGY3TQOJQ ")); (s2b "timestamp", JvInt 59); (s2b "digits", JvStr (s2b "8"));
            (s2b "ALGORITHM", JvStr (s2b "SHA1"))] in
  let c := mkCtx (mkReq (s2b "POST") (s2b "/totp/generate") [] (BObject f)) 0%Z 0%Z [] BNone in
  rest_runs 60 c /\
  SrcRest.routers 60 (repeat 0 64) (repeat 0 8) (repeat 0 256) c =
    Val (answer c 200 (OObj [(s2b "code", OStr (s2b "94287082")); (s2b "timestamp", OInt 59)])).
Proof.
  split.
  - split; [lia|]. cbn. repeat constructor; cbn; try lia; unfold small, zlen; cbn; lia.
  - vm_compute. reflexivity.
Qed.
