(** C13 — validation verdicts are unambiguous; errors never leak secret or expected code.
    Verdict clause: every validation returns (true, nil) or (false, error).
    Disclosure clause, stated as non-interference (see DESIGN.md section 6, C13): an error
    returned after the HMAC was computed is a sentinel whose text contains no decimal digit
    (so it cannot contain a code of 6 or more digits), and the error of a validation does not
    depend on the HMAC function at all.  The secret side is covered by the correspondence's
    string scan and by the SSA flow check. *)
From OtpV Require Import Prelude Sha Tables ErrTexts Errors Decoder Derive Otp Ocra DeriveProofs OtpProofs OcraProofs LeakProofs.
Open Scope N_scope.

Theorem C13_verdict_hotp : forall secret code c p,
  exists k, validate_hotp secret code c p = (Ok (true, None), k)
         \/ exists e, validate_hotp secret code c p = (Ok (false, Some e), k).
Proof. exact (validate_hotp_verdict hmac hmac_length hmac_wf). Qed.
Print Assumptions C13_verdict_hotp.

Theorem C13_verdict_totp : forall secret code t p,
  exists k, validate_totp secret code t p = (Ok (true, None), k)
         \/ exists e, validate_totp secret code t p = (Ok (false, Some e), k).
Proof. exact (validate_totp_verdict hmac hmac_length hmac_wf). Qed.
Print Assumptions C13_verdict_totp.

Theorem C13_verdict_ocra : forall secret code cfg i,
  exists k, validate_ocra secret code cfg i = (Ok (true, None), k)
         \/ exists e, validate_ocra secret code cfg i = (Ok (false, Some e), k).
Proof. exact (validate_ocra_verdict hmac hmac_length hmac_wf). Qed.
Print Assumptions C13_verdict_ocra.

(** the sentinel texts regenerated from errs.go contain no decimal digit *)
Definition no_digit (t : bytes) : bool := forallb (fun c => negb ((48 <=? c) && (c <=? 57))) t.
Theorem C13_sentinels_digit_free : forall s, no_digit (sentinel_text s) = true.
Proof. intros s. destruct s; vm_compute; reflexivity. Qed.
Print Assumptions C13_sentinels_digit_free.

(** one validation step: whatever HMAC function is used (i.e. whatever the expected code is),
    a rejection carries the same error unless the submitted string happens to be accepted *)
Theorem C13_step_error_independent : forall hm1 hm2
  (L1 : forall a k m, length (hm1 a k m) = hlen a) (W1 : forall a k m, wfb (hm1 a k m))
  (L2 : forall a k m, length (hm2 a k m) = hlen a) (W2 : forall a k m, wfb (hm2 a k m))
  code key c d algo e1 e2 k1 k2,
  validate_rfc4226 hm1 code key c d algo = (Ok (false, Some e1), k1) ->
  validate_rfc4226 hm2 code key c d algo = (Ok (false, Some e2), k2) ->
  e1 = e2.
Proof.
  intros hm1 hm2 L1 W1 L2 W2 code key c d algo e1 e2 k1 k2.
  unfold validate_rfc4226, validate.
  destruct (negb (zlen code =? Z.of_N d)%Z); [intros H1 H2; inversion H1; inversion H2; congruence|].
  unfold derive_rfc4226_with.
  destruct (n_hmac_pools <=? algo); [intros H1 H2; inversion H1; inversion H2; congruence|].
  destruct ((Z.of_N d <? 1)%Z || (Z.of_nat (length mod10) <=? Z.of_N d)%Z) eqn:Ed;
    [intros H1 H2; inversion H1; inversion H2; congruence|].
  destruct (alg_of_N algo) as [a|]; [|discriminate].
  rewrite mod10_length in Ed.
  rewrite mod10_at_spec by lia. cbn [obind].
  rewrite !truncate_spec; try apply W1; try apply W2; try (rewrite ?L1, ?L2; destruct a; simpl; lia);
    try (apply N.pow_nonzero; discriminate).
  cbn [obind].
  destruct (Z.of_N d <=? 8)%Z eqn:E8;
    [rewrite !short_digit_spec by lia | rewrite !long_digit_spec by lia];
    repeat match goal with |- context [bytes_eqb ?x ?y] => destruct (bytes_eqb x y) end;
    intros H1 H2; inversion H1; inversion H2; congruence.
Qed.
Print Assumptions C13_step_error_independent.

(** after the HMAC has been computed the only errors a validation step returns are the two
    sentinels "invalid otp code" / "invalid code length" — never a formatted message *)
Theorem C13_post_hmac_errors : forall code key c d a e k,
  1 <= d <= 10 ->
  validate_rfc4226 hmac code key c d (N_of_alg a) = (Ok (false, Some e), k) ->
  e = ESent ErrInvalidCode \/ e = ESent ErrInvalidCodeLength.
Proof.
  intros code key c d a e k Hd. unfold validate_rfc4226, validate.
  destruct (negb (zlen code =? Z.of_N d)%Z); [intros H; inversion H; auto|].
  rewrite (derive_rfc4226_spec hmac hmac_length hmac_wf) by lia.
  destruct (bytes_eqb _ _); intros H; inversion H; auto.
Qed.
Print Assumptions C13_post_hmac_errors.

Theorem C13_ocra_post_hmac_errors : forall secret code cfg i e k,
  (exists c, generate_ocra secret cfg i = Ok c) ->
  validate_ocra secret code cfg i = (Ok (false, Some e), k) ->
  e = ESent ErrInvalidCode \/ e = ESent ErrInvalidCodeLength.
Proof.
  intros secret code cfg i e k [c Hg]. unfold validate_ocra, validate_ocra_with, generate_ocra, generate_ocra_with in *.
  destruct (decode_secret secret) as [key| |]; try discriminate. cbn [obind] in Hg.
  unfold validate. rewrite Hg.
  destruct (negb (zlen code =? sc_digits cfg)%Z); [intros H; inversion H; auto|].
  destruct (bytes_eqb code c); intros H; inversion H; auto.
Qed.
Print Assumptions C13_ocra_post_hmac_errors.

(** disclosure, structurally: no error of a generation or validation operation has any string
    argument — it is a sentinel, a base32 offset (a position), or a fixed message with numbers
    (lengths, enum values).  The secret (as text or as key bytes) and the expected code are
    strings; they are not arguments of any error these operations return. *)
Theorem C13_generation_errors_carry_no_text : forall secret c t p cfg i e,
  (generate_hotp secret c p = Err e -> textless e) /\
  (generate_totp secret t p = Err e -> textless e) /\
  (generate_ocra secret cfg i = Err e -> textless e).
Proof.
  intros. repeat split; [apply generate_hotp_textless|apply generate_totp_textless|apply generate_ocra_textless].
Qed.
Print Assumptions C13_generation_errors_carry_no_text.

Theorem C13_validation_errors_carry_no_text : forall secret code c t p cfg i e k,
  (validate_hotp secret code c p = (Ok (false, Some e), k) -> textless e) /\
  (validate_totp secret code t p = (Ok (false, Some e), k) -> textless e) /\
  (validate_ocra secret code cfg i = (Ok (false, Some e), k) -> textless e).
Proof.
  intros. repeat split; [apply validate_hotp_textless|apply validate_totp_textless|apply validate_ocra_textless].
Qed.
Print Assumptions C13_validation_errors_carry_no_text.
