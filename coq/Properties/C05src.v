(** C05 over the Go source (Generated/Src.v: GenerateOCRA, deriveRFC6287, padBytes, formatDecimal, truncate). *)
From Coq Require Import String.
From OtpV Require Import Prelude Sha GoSem Tables Decoder Derive Otp Ocra Rfc4226 Rfc6287 Errors OcraProofs Src SrcLift SrcTop SrcEqDecode SrcEqOtp SrcEqOcraV SrcEqOcra C05.
Open Scope N_scope.

Theorem C05src_value : forall fuel junk junkmsg secret key cfg i a,
  runs fuel junk secret -> small_input i ->
  Src.DecodeSecret fuel secret = Val (key, None) -> usable cfg -> admissible cfg i -> sc_hash cfg = N_of_alg a ->
  Src.GenerateOCRA fuel junkmsg secret (Some cfg) i =
  Val (ocra_value hmac a key (sc_raw cfg)
        (sel (sc_c cfg) (oi_counter i)) (sel (sc_q cfg) (oi_challenge i)) (sel (sc_p cfg) (oi_password i))
        (sel (sc_s cfg) (oi_session i)) (sel (sc_t cfg) (oi_timestamp i)) (Z.to_nat (sc_digits cfg)), None).
Proof.
  intros fuel junk junkmsg secret key cfg i a (Hf & Hfs & Hs & Hj) Hi Hk Hu Ha Hh.
  apply src_decode_ok in Hk; [|assumption|assumption].
  rewrite src_GenerateOCRA_eq by (assumption || lia). rewrite (C05_value secret key cfg i a) by assumption. reflexivity.
Qed.
Print Assumptions C05src_value.

(** fields the suite does not select, and whatever the pooled message buffer held, have no influence *)
Theorem C05src_unselected : forall fuel junk junkmsg junkmsg' secret cfg i j,
  runs fuel junk secret -> small_input i -> small_input j -> agree cfg i j ->
  Src.GenerateOCRA fuel junkmsg secret (Some cfg) i = Src.GenerateOCRA fuel junkmsg' secret (Some cfg) j.
Proof.
  intros fuel junk junkmsg junkmsg' secret cfg i j (Hf & Hfs & Hs & Hj) Hi Hjj Hag.
  rewrite !src_GenerateOCRA_eq by (assumption || lia). rewrite (C05_unselected secret cfg i j Hag). reflexivity.
Qed.
Print Assumptions C05src_unselected.

Theorem C05src_pad : forall b n, (length b <= n)%nat -> (Z.of_nat n < 4611686018427387904)%Z ->
  Src.padBytes b (Z.of_nat n) = Val (rpad n b).
Proof.
  intros b n Hl Hn. rewrite SrcEqDerive.src_padBytes_eq; [|unfold small, zlen; lia|lia].
  rewrite C05_pad by exact Hl. reflexivity.
Qed.
Print Assumptions C05src_pad.

Example C05src_rfc_vector :
  Src.GenerateOCRA 40 (repeat 77 300) (s2b "GEZDGNBVGY3TQOJQGEZDGNBVGY3TQOJQ"%string)
    (Some (mkSuite (s2b "OCRA-1:HOTP-SHA1-6:QN08"%string) 0 6 1 false true false false false 0 0))
    (mkInput [] (repeat 0 128) [] [] []) = Val (s2b "237653"%string, None).
Proof. vm_compute. reflexivity. Qed.
