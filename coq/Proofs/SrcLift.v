(** How results of the hand-written model ([outcome], verdicts with a work counter) read as results
    of the functions translated from the Go source ([res] of Go's result tuple), and the small
    facts about GoSem's operations that the equivalence proofs share. *)
From Coq Require Import ZifyN ZifyNat ZifyBool.
From OtpV Require Import Prelude Sha GoSem Errors Decoder Derive Otp.
Open Scope N_scope.
Ltac Zify.zify_post_hook ::= Z.div_mod_to_equations.

(** (T, error) results: the model's [Err e] is Go's (zero value, e) *)
Definition lift_oc (o : outcome bytes) : res (bytes * option err) :=
  match o with Ok a => Val (a, None) | Err e => Val ([], Some e) | Panic => Pnc end.
(** results without an error component *)
Definition lift_p {A} (o : outcome A) : res A :=
  match o with Ok a => Val a | Err _ => Pnc | Panic => Pnc end.
(** (bool, error) verdicts: the work counter is dropped *)
Definition lift_v (o : outcome verdict * nat) : res (bool * option err) :=
  match fst o with Ok v => Val v | Err e => Val (false, Some e) | Panic => Pnc end.

Lemma idx_nat s i : idx s (Z.of_nat i) = match nth_error s i with Some b => Val b | None => Pnc end.
Proof.
  unfold idx. destruct (Z.of_nat i <? 0)%Z eqn:E; [lia|]. rewrite Nat2Z.id. reflexivity.
Qed.

Lemma idx_neg s i : (i < 0)%Z -> idx s i = Pnc.
Proof. intros H. unfold idx. destruct (i <? 0)%Z eqn:E; [reflexivity|lia]. Qed.

(** Go's lengths are ints: every slice the real code can hold is shorter than 2^62 *)
Definition small {A} (s : list A) : Prop := (zlen s < 4611686018427387904)%Z.

Lemma idx_last s : small s ->
  idx s (wrap_int64 (Z.sub (zlen s) 1)) = match s with [] => Pnc | _ => Val (last s 0) end.
Proof.
  intros Hs. destruct s as [|a s]; [reflexivity|].
  assert (Hlen : (zlen (a :: s) - 1 = Z.of_nat (length s))%Z) by (unfold zlen; cbn [length]; lia).
  unfold small in Hs.
  rewrite wrap_int64_small by lia. rewrite Hlen, idx_nat.
  replace (nth_error (a :: s) (length s)) with (Some (last (a :: s) 0)); [reflexivity|].
  clear. revert a. induction s as [|b s IH]; intros a; [reflexivity|].
  cbn [length nth_error]. rewrite <- IH. reflexivity.
Qed.

Lemma idx_N s (n : N) : idx s (Z.of_N n) = match nth_error s (N.to_nat n) with Some b => Val b | None => Pnc end.
Proof. rewrite <- idx_nat. f_equal. lia. Qed.

Lemma land15_lt x : N.land x 15 < 16.
Proof. change 15 with (N.ones 4). rewrite N.land_ones. apply N.mod_lt. discriminate. Qed.

Lemma wrap8_small x : x < 256 -> wrap8 x = x.
Proof. intros H. unfold wrap8. apply N.mod_small. exact H. Qed.
