"""Property-specific engines beyond the generic correspondence streams."""


def extra_engines(pid, tier, seed, log, build_state):
    return {}
