(** HOTP / TOTP generation and window validation (hotp.go, totp.go, validate.go) against
    RFC 4226 / RFC 6238. *)
From Coq Require Import ZifyN ZifyNat ZifyBool.
From OtpV Require Import Prelude Sha Tables Decoder Derive Otp Rfc4226 BitLemmas DeriveProofs.
Open Scope N_scope.
Ltac Zify.zify_post_hook ::= Z.div_mod_to_equations.

Lemma bytes_eqb_eq a b : bytes_eqb a b = true <-> a = b.
Proof.
  revert b; induction a as [|x a IH]; intros [|y b]; simpl; split; try congruence; try discriminate.
  - intros H. apply andb_true_iff in H. destruct H as [H1 H2]. apply N.eqb_eq in H1. apply IH in H2. congruence.
  - intros H. inversion H; subst. apply andb_true_iff. split; [apply N.eqb_refl|apply IH; reflexivity].
Qed.

Lemma bytes_eqb_refl a : bytes_eqb a a = true.
Proof. apply bytes_eqb_eq. reflexivity. Qed.

(** the generated defaults and bounds, as the property states them *)
Lemma default_hotp_is : default_hotp_param = mkParam 6 0 2 0.          Proof. reflexivity. Qed.
Lemma default_totp_is : default_totp_param = mkParam 6 30 0 0.         Proof. reflexivity. Qed.
Lemma hotp_max_skew_is : hotp_max_skew = Some 10.                      Proof. reflexivity. Qed.
Lemma totp_max_skew_is : totp_max_skew = Some 10.                      Proof. reflexivity. Qed.
Lemma zero_periods_are :
  totp_gen_zero_period = Some 30 /\ totp_val_zero_period = Some 30 /\ totp_url_zero_period = Some 30.
Proof. repeat split. Qed.

Definition valid_digits (d : N) : Prop := 1 <= d <= 10.

Lemma decode_secret_no_panic s : decode_secret s <> Panic.
Proof.
  unfold decode_secret. destruct (first_bad 0%Z (trim_space s)); [discriminate|].
  destruct (b32_decode_string _) as [bs [off|]]; discriminate.
Qed.

(** a validation step yields (true, nil) or (false, err), never anything else *)
Lemma validate_shape code explen f :
  f tt <> Panic ->
  exists k, validate code explen f = (Ok (true, None), k) \/ exists e, validate code explen f = (Ok (false, Some e), k).
Proof.
  intros Hf. unfold validate.
  destruct (negb (zlen code =? explen)%Z); [eexists; right; eexists; reflexivity|].
  destruct (f tt) as [x|e|]; [|eexists; right; eexists; reflexivity|congruence].
  destruct (bytes_eqb code x); eexists; [left|right; eexists]; reflexivity.
Qed.

Lemma validate_cost code explen f : (snd (validate code explen f) <= 1)%nat.
Proof.
  unfold validate. destruct (negb (zlen code =? explen)%Z); [simpl; lia|].
  destruct (f tt) as [x|e|]; try (simpl; lia). destruct (bytes_eqb code x); simpl; lia.
Qed.


Section WithHmac.
  Set Default Proof Using "All".
  Variable hm : alg -> bytes -> bytes -> bytes.
  Hypothesis hm_length : forall a k m, length (hm a k m) = hlen a.
  Hypothesis hm_wf : forall a k m, wfb (hm a k m).

  Notation HOTP := (hotp_value hm).

  (** ---------------- generation ---------------- *)
  Theorem generate_hotp_value secret key c d per sk a :
    decode_secret secret = Ok key -> valid_digits d ->
    generate_hotp_with hm secret c (Some (mkParam d per sk (N_of_alg a))) = Ok (HOTP a key c (N.to_nat d)).
  Proof.
    intros Hk Hd. unfold generate_hotp_with. rewrite Hk. cbn [obind p_digits p_alg].
    rewrite (derive_rfc4226_spec hm hm_length hm_wf) by (unfold valid_digits in Hd; lia).
    f_equal. f_equal. lia.
  Qed.

  Theorem generate_hotp_nil secret c :
    generate_hotp_with hm secret c None = generate_hotp_with hm secret c (Some (mkParam 6 0 2 0)).
  Proof. reflexivity. Qed.

  Theorem generate_hotp_unsupported secret key c d per sk algo :
    decode_secret secret = Ok key -> d < 256 -> algo < 256 ->
    (d = 0 \/ 10 < d \/ 3 <= algo) ->
    exists e, generate_hotp_with hm secret c (Some (mkParam d per sk algo)) = Err e.
  Proof.
    intros Hk Hd Ha Hbad. unfold generate_hotp_with. rewrite Hk. cbn [obind p_digits p_alg].
    apply derive_rfc4226_unsupported; auto; lia.
  Qed.

  Theorem generate_hotp_bad_secret secret e c p :
    decode_secret secret = Err e -> generate_hotp_with hm secret c p = Err e.
  Proof. intros Hk. unfold generate_hotp_with. rewrite Hk. reflexivity. Qed.

  Theorem generate_hotp_code_shape secret key c d per sk a :
    decode_secret secret = Ok key -> valid_digits d ->
    exists s, generate_hotp_with hm secret c (Some (mkParam d per sk (N_of_alg a))) = Ok s /\
              is_code (N.to_nat d) (hotp_number hm a key c (N.to_nat d)) s.
  Proof.
    intros Hk Hd. eexists. split; [apply generate_hotp_value; eassumption|].
    unfold hotp_value. apply pad_dec_is_code. unfold hotp_number.
    apply N.mod_lt. apply N.pow_nonzero. discriminate.
  Qed.

  (** ---------------- TOTP generation ---------------- *)
  Definition eff30 (period : N) : N := if period =? 0 then 30 else period.

  Lemma of_int64_small z : (0 <= z < 2 ^ 63)%Z -> of_int64 z = Z.to_N z.
  Proof. intros H. unfold of_int64, two64. rewrite Z.mod_small; [reflexivity|]. change (2^63)%Z with 9223372036854775808%Z in H. lia. Qed.

  Theorem generate_totp_is_hotp secret unix p :
    (0 <= unix < 2 ^ 62)%Z ->
    generate_totp_with hm secret unix (Some p) =
    generate_hotp_with hm secret (Z.to_N unix / eff30 (p_period p)) (Some p).
  Proof.
    intros Hu. unfold generate_totp_with, generate_hotp_with.
    destruct (decode_secret secret) as [key|e|]; cbn [obind]; try reflexivity.
    unfold time_counter, eff_period. change totp_gen_zero_period with (Some 30). unfold eff30.
    rewrite of_int64_small by (change (2^62)%Z with 4611686018427387904%Z in Hu; change (2^63)%Z with 9223372036854775808%Z; lia).
    destruct (p_period p =? 0) eqn:E; cbn [obind]; [reflexivity|].
    rewrite E. reflexivity.
  Qed.

  Theorem generate_totp_nil secret unix :
    generate_totp_with hm secret unix None = generate_totp_with hm secret unix (Some (mkParam 6 30 0 0)).
  Proof. reflexivity. Qed.

  (** the code is constant inside a time step and the step changes exactly at multiples of the period *)
  Theorem generate_totp_same_step secret u u' p :
    (0 <= u < 2 ^ 62)%Z -> (0 <= u' < 2 ^ 62)%Z ->
    Z.to_N u / eff30 (p_period p) = Z.to_N u' / eff30 (p_period p) ->
    generate_totp_with hm secret u (Some p) = generate_totp_with hm secret u' (Some p).
  Proof. intros Hu Hu' E. rewrite !generate_totp_is_hotp by assumption. rewrite E. reflexivity. Qed.

  Lemma step_boundary k per : 0 < per -> 0 < k -> (k * per - 1) / per = k - 1 /\ (k * per) / per = k.
  Proof.
    intros Hp Hk. split.
    - symmetry. apply (N.div_unique _ _ _ (per - 1)); [lia|]. nia.
    - apply N.div_mul. lia.
  Qed.

  Lemma eff30_pos per : 0 < eff30 per.
  Proof. unfold eff30. destruct (per =? 0) eqn:E; [reflexivity|]. apply N.eqb_neq in E. lia. Qed.

  (** ---------------- one validation step ---------------- *)
  Lemma hotp_value_length a key c d : length (HOTP a key c d) = d.
  Proof. apply pad_dec_length. Qed.

  Lemma validate_rfc4226_accept code key cc d a :
    valid_digits d ->
    (fst (validate_rfc4226 hm code key cc d (N_of_alg a)) = Ok (true, None)
     <-> code = HOTP a key cc (N.to_nat d)).
  Proof.
    intros Hd. unfold validate_rfc4226, validate, zlen.
    rewrite (derive_rfc4226_spec hm hm_length hm_wf) by (unfold valid_digits in Hd; lia).
    replace (Z.to_nat (Z.of_N d)) with (N.to_nat d) by lia.
    destruct (Z.of_nat (length code) =? Z.of_N d)%Z eqn:El; cbn [negb fst].
    - destruct (bytes_eqb code (HOTP a key cc (N.to_nat d))) eqn:Eb; cbn [fst].
      + apply bytes_eqb_eq in Eb. split; auto.
      + split; [discriminate|]. intros ->. rewrite bytes_eqb_refl in Eb. discriminate.
    - split; [discriminate|]. intros ->. rewrite hotp_value_length in El. lia.
  Qed.

  Lemma validate_rfc4226_shape code key cc d algo :
    exists k, validate_rfc4226 hm code key cc d algo = (Ok (true, None), k)
           \/ exists e, validate_rfc4226 hm code key cc d algo = (Ok (false, Some e), k).
  Proof. unfold validate_rfc4226. apply validate_shape. apply derive_rfc4226_total; assumption. Qed.

  (** ---------------- the HOTP window loop ---------------- *)
  (** counter visited by iteration [i], None when the iteration is skipped *)
  Definition hotp_visit (counter : N) (i : Z) : option N :=
    if (i <? 0)%Z && (counter <? of_int64 (- i)) then None
    else Some (if (i <? 0)%Z then sub64 counter (of_int64 (- i)) else wrap64 (counter + of_int64 i)).

  Lemma hotp_loop_spec offs code key counter d algo cost :
    let accepts i := match hotp_visit counter i with
                     | Some cc => fst (validate_rfc4226 hm code key cc d algo) = Ok (true, None)
                     | None => False end in
    (Exists accepts offs /\ exists k, hotp_loop hm offs code key counter d algo cost = (Ok (true, None), k))
    \/ (~ Exists accepts offs /\ exists k, hotp_loop hm offs code key counter d algo cost = (Ok (false, Some (ESent ErrInvalidCode)), k)).
  Proof.
    intros accepts. revert cost. induction offs as [|i rest IH]; intros cost.
    - right. split; [intros H; inversion H|]. eexists. reflexivity.
    - cbn [hotp_loop].
      destruct ((i <? 0)%Z && (counter <? of_int64 (- i))) eqn:Eskip.
      + destruct (IH cost) as [[Hex Hr]|[Hnex Hr]].
        * left. split; [apply Exists_cons_tl; exact Hex|exact Hr].
        * right. split; [|exact Hr]. intros H. inversion H as [? ? Hh|? ? Ht]; subst.
          -- unfold accepts, hotp_visit in Hh. rewrite Eskip in Hh. exact Hh.
          -- exact (Hnex Ht).
      + set (cc := if (i <? 0)%Z then sub64 counter (of_int64 (- i)) else wrap64 (counter + of_int64 i)).
        destruct (validate_rfc4226_shape code key cc d algo) as [k [Hv|[e Hv]]]; rewrite Hv.
        * left. split; [|eexists; reflexivity]. apply Exists_cons_hd.
          unfold accepts, hotp_visit. rewrite Eskip. fold cc. rewrite Hv. reflexivity.
        * destruct (IH (cost + k)%nat) as [[Hex Hr]|[Hnex Hr]].
          -- left. split; [apply Exists_cons_tl; exact Hex|exact Hr].
          -- right. split; [|exact Hr]. intros H. inversion H as [? ? Hh|? ? Ht]; subst.
             ++ unfold accepts, hotp_visit in Hh. rewrite Eskip in Hh. fold cc in Hh. rewrite Hv in Hh. discriminate.
             ++ exact (Hnex Ht).
  Qed.

  Lemma hotp_loop_cost offs code key counter d algo cost :
    (snd (hotp_loop hm offs code key counter d algo cost) <= cost + length offs)%nat.
  Proof.
    revert cost. induction offs as [|i rest IH]; intros cost; cbn [hotp_loop length]; [simpl; lia|].
    destruct ((i <? 0)%Z && (counter <? of_int64 (- i))).
    - specialize (IH cost). lia.
    - match goal with |- context [validate_rfc4226 ?a ?b ?c ?d ?e ?f] =>
        pose proof (validate_cost b (Z.of_N e) (fun _ => derive_rfc4226_with hm c d (Z.of_N e) f)) as Hc;
        change (validate b (Z.of_N e) (fun _ => derive_rfc4226_with hm c d (Z.of_N e) f)) with (validate_rfc4226 a b c d e f) in Hc;
        destruct (validate_rfc4226 a b c d e f) as [[[[|] [e0|]]|e1|] k] end;
        cbn [snd] in *; try lia; specialize (IH (cost + k)%nat); lia.
  Qed.

  Lemma offsets_length s : length (offsets s) = (2 * N.to_nat s + 1)%nat.
  Proof. unfold offsets. rewrite map_length, seq_length. reflexivity. Qed.

  Lemma in_offsets s i : In i (offsets s) <-> (- Z.of_N s <= i <= Z.of_N s)%Z.
  Proof.
    unfold offsets. rewrite in_map_iff. split.
    - intros (k & <- & Hk). apply in_seq in Hk. lia.
    - intros H. exists (Z.to_nat (i + Z.of_N s)). split; [lia|]. apply in_seq. lia.
  Qed.

  Lemma of_int64_nonneg_small z : (0 <= z <= 10)%Z -> of_int64 z = Z.to_N z.
  Proof. intros H. apply of_int64_small. change (2^63)%Z with 9223372036854775808%Z. lia. Qed.

  (** C03: the window, "if and only if" *)
  Theorem validate_hotp_iff secret key code c d per s a :
    decode_secret secret = Ok key -> valid_digits d -> s <= 10 -> c + s < two64 ->
    (fst (validate_hotp_with hm secret code c (Some (mkParam d per s (N_of_alg a)))) = Ok (true, None)
     <-> exists c', c - s <= c' <= c + s /\ code = HOTP a key c' (N.to_nat d)).
  Proof.
    intros Hk Hd Hs Hc. unfold validate_hotp_with. cbn [p_skew p_digits p_alg].
    rewrite hotp_max_skew_is. cbn [skew_refused].
    assert (10 <? s = false) as -> by (apply N.ltb_ge; exact Hs).
    rewrite Hk. unfold two64 in Hc.
    assert (forall i, In i (offsets s) ->
              hotp_visit c i = if (i <? 0)%Z && (c <? Z.to_N (- i)) then None else Some (Z.to_N (Z.of_N c + i))) as Hvisit.
    { intros i Hi. apply in_offsets in Hi. unfold hotp_visit.
      destruct (i <? 0)%Z eqn:Ei.
      - rewrite of_int64_nonneg_small by lia. cbn [andb].
        destruct (c <? Z.to_N (- i)) eqn:Ec; [reflexivity|]. f_equal.
        unfold sub64, two64. apply N.ltb_ge in Ec.
        rewrite (N.mod_small (Z.to_N (- i))) by lia.
        replace (c + 18446744073709551616 - Z.to_N (- i)) with (Z.to_N (Z.of_N c + i) + 1 * 18446744073709551616) by lia.
        rewrite N.mod_add by discriminate. apply N.mod_small. lia.
      - cbn [andb]. f_equal. rewrite of_int64_nonneg_small by lia. unfold wrap64, two64.
        rewrite N.mod_small by lia. lia. }
    destruct (hotp_loop_spec (offsets s) code key c d (N_of_alg a) O) as [[Hex [k Hr]]|[Hnex [k Hr]]];
      rewrite Hr; cbn [fst].
    - split; [intros _|reflexivity]. apply Exists_exists in Hex. destruct Hex as (i & Hi & Hacc).
      rewrite (Hvisit i Hi) in Hacc. apply in_offsets in Hi.
      destruct ((i <? 0)%Z && (c <? Z.to_N (- i))) eqn:Eskip; [contradiction|].
      apply validate_rfc4226_accept in Hacc; [|exact Hd].
      exists (Z.to_N (Z.of_N c + i)). split; [|exact Hacc]. lia.
    - split; [discriminate|]. intros (c' & Hwin & Hcode). exfalso. apply Hnex.
      apply Exists_exists. exists (Z.of_N c' - Z.of_N c)%Z.
      assert (In (Z.of_N c' - Z.of_N c)%Z (offsets s)) as Hi by (apply in_offsets; lia).
      split; [exact Hi|]. rewrite (Hvisit _ Hi).
      destruct ((Z.of_N c' - Z.of_N c <? 0)%Z && (c <? Z.to_N (- (Z.of_N c' - Z.of_N c)))) eqn:Eskip; [lia|].
      replace (Z.to_N (Z.of_N c + (Z.of_N c' - Z.of_N c))) with c' by lia.
      apply validate_rfc4226_accept; assumption.
  Qed.

  Theorem validate_hotp_refuse secret code c d per s algo :
    10 < s ->
    validate_hotp_with hm secret code c (Some (mkParam d per s algo)) = (Ok (false, Some (ESent ErrInvalidSkew)), O).
  Proof.
    intros Hs. unfold validate_hotp_with. cbn [p_skew]. rewrite hotp_max_skew_is. cbn [skew_refused].
    apply N.ltb_lt in Hs. rewrite Hs. reflexivity.
  Qed.

  Theorem validate_hotp_nil secret code c :
    validate_hotp_with hm secret code c None = validate_hotp_with hm secret code c (Some (mkParam 6 0 2 0)).
  Proof. reflexivity. Qed.

  (** every HOTP validation returns (true, nil) or (false, error): C13's verdict clause *)
  Theorem validate_hotp_verdict secret code c p :
    exists k, validate_hotp_with hm secret code c p = (Ok (true, None), k)
           \/ exists e, validate_hotp_with hm secret code c p = (Ok (false, Some e), k).
  Proof.
    unfold validate_hotp_with.
    destruct (skew_refused hotp_max_skew _); [eexists; right; eexists; reflexivity|].
    destruct (decode_secret secret) as [key|e|] eqn:Hk.
    - match goal with |- context [hotp_loop hm ?o ?c ?k ?n ?d ?a ?z] =>
        destruct (hotp_loop_spec o c k n d a z) as [[_ [k0 Hr]]|[_ [k0 Hr]]] end; rewrite Hr; eexists.
      + left; reflexivity.
      + right; eexists; reflexivity.
    - eexists; right; eexists; reflexivity.
    - exfalso. revert Hk. unfold decode_secret.
      destruct (first_bad 0%Z (trim_space secret)); [discriminate|].
      destruct (b32_decode_string _) as [bs [off|]]; discriminate.
  Qed.

  Theorem validate_hotp_cost secret code c p : (snd (validate_hotp_with hm secret code c p) <= 21)%nat.
  Proof.
    unfold validate_hotp_with. rewrite hotp_max_skew_is. cbn [skew_refused].
    set (pp := match p with Some p0 => p0 | None => default_hotp_param end).
    destruct (10 <? p_skew pp) eqn:Es; [simpl; lia|]. apply N.ltb_ge in Es.
    destruct (decode_secret secret); try (simpl; lia).
    pose proof (hotp_loop_cost (offsets (p_skew pp)) code a c (p_digits pp) (p_alg pp) O) as H.
    rewrite offsets_length in H. lia.
  Qed.

  (** ---------------- the TOTP window loop ---------------- *)
  Lemma totp_loop_spec offs code key counter d algo cost :
    let accepts i := fst (validate_rfc4226 hm code key (wrap64 (counter + of_int64 i)) d algo) = Ok (true, None) in
    (Exists accepts offs /\ exists k, totp_loop hm offs code key counter d algo cost = (Ok (true, None), k))
    \/ (~ Exists accepts offs /\ exists k, totp_loop hm offs code key counter d algo cost = (Ok (false, Some (ESent ErrInvalidCode)), k)).
  Proof.
    intros accepts. revert cost. induction offs as [|i rest IH]; intros cost.
    - right. split; [intros H; inversion H|]. eexists. reflexivity.
    - cbn [totp_loop].
      destruct (validate_rfc4226_shape code key (wrap64 (counter + of_int64 i)) d algo) as [k [Hv|[e Hv]]]; rewrite Hv.
      + left. split; [|eexists; reflexivity]. apply Exists_cons_hd. unfold accepts. rewrite Hv. reflexivity.
      + destruct (IH (cost + k)%nat) as [[Hex Hr]|[Hnex Hr]].
        * left. split; [apply Exists_cons_tl; exact Hex|exact Hr].
        * right. split; [|exact Hr]. intros H. inversion H as [? ? Hh|? ? Ht]; subst.
          -- unfold accepts in Hh. rewrite Hv in Hh. discriminate.
          -- exact (Hnex Ht).
  Qed.

  Lemma totp_loop_cost offs code key counter d algo cost :
    (snd (totp_loop hm offs code key counter d algo cost) <= cost + length offs)%nat.
  Proof.
    revert cost. induction offs as [|i rest IH]; intros cost; cbn [totp_loop length]; [simpl; lia|].
    match goal with |- context [validate_rfc4226 ?a ?b ?c ?d ?e ?f] =>
      pose proof (validate_cost b (Z.of_N e) (fun _ => derive_rfc4226_with hm c d (Z.of_N e) f)) as Hc;
      change (validate b (Z.of_N e) (fun _ => derive_rfc4226_with hm c d (Z.of_N e) f)) with (validate_rfc4226 a b c d e f) in Hc;
      destruct (validate_rfc4226 a b c d e f) as [[[[|] [e0|]]|e1|] k] end;
      cbn [snd] in *; try lia; specialize (IH (cost + k)%nat); lia.
  Qed.

  Lemma wrap_add_offset n i : n < two64 -> (- 10 <= i <= 10)%Z -> (0 <= Z.of_N n + i)%Z -> (Z.of_N n + i < Z.of_N two64)%Z ->
    wrap64 (n + of_int64 i) = Z.to_N (Z.of_N n + i).
  Proof.
    intros Hn Hi Hlo Hhi. unfold wrap64, of_int64, two64 in *.
    change (Z.of_N 18446744073709551616) with 18446744073709551616%Z in *.
    destruct (Z.ltb_spec i 0).
    - assert (i mod 18446744073709551616 = i + 18446744073709551616)%Z as -> by lia.
      replace (n + Z.to_N (i + 18446744073709551616)) with (Z.to_N (Z.of_N n + i) + 1 * 18446744073709551616) by lia.
      rewrite N.mod_add by discriminate. apply N.mod_small. lia.
    - rewrite Z.mod_small by lia. rewrite N.mod_small by lia. lia.
  Qed.

  (** C04: the skew window, "if and only if" *)
  Theorem validate_totp_iff secret key code unix d per s a :
    decode_secret secret = Ok key -> valid_digits d -> s <= 10 ->
    (0 <= unix < 2 ^ 62)%Z ->
    let n := Z.to_N unix / eff30 per in
    s <= n ->
    (fst (validate_totp_with hm secret code unix (Some (mkParam d per s (N_of_alg a)))) = Ok (true, None)
     <-> exists n', n - s <= n' <= n + s /\ code = HOTP a key n' (N.to_nat d)).
  Proof.
    intros Hk Hd Hs Hu n Hn. unfold validate_totp_with. cbn [p_skew p_digits p_alg p_period].
    rewrite totp_max_skew_is. cbn [skew_refused].
    assert (10 <? s = false) as -> by (apply N.ltb_ge; exact Hs).
    rewrite Hk. unfold time_counter, eff_period. change totp_val_zero_period with (Some 30).
    change (2^62)%Z with 4611686018427387904%Z in Hu.
    rewrite of_int64_small by (change (2^63)%Z with 9223372036854775808%Z; lia).
    fold (eff30 per). pose proof (eff30_pos per) as Hpos.
    assert (eff30 per =? 0 = false) as -> by (apply N.eqb_neq; lia). fold n.
    assert (n <= Z.to_N unix) as Hnu by (apply N.div_le_upper_bound; nia).
    assert (forall i, In i (offsets s) -> wrap64 (n + of_int64 i) = Z.to_N (Z.of_N n + i)) as Hw.
    { intros i Hi. apply in_offsets in Hi. apply wrap_add_offset; unfold two64; lia. }
    destruct (totp_loop_spec (offsets s) code key n d (N_of_alg a) O) as [[Hex [k Hr]]|[Hnex [k Hr]]];
      rewrite Hr; cbn [fst].
    - split; [intros _|reflexivity]. apply Exists_exists in Hex. destruct Hex as (i & Hi & Hacc).
      rewrite (Hw i Hi) in Hacc. apply in_offsets in Hi.
      apply validate_rfc4226_accept in Hacc; [|exact Hd].
      exists (Z.to_N (Z.of_N n + i)). split; [lia|exact Hacc].
    - split; [discriminate|]. intros (n' & Hwin & Hcode). exfalso. apply Hnex.
      apply Exists_exists. exists (Z.of_N n' - Z.of_N n)%Z.
      assert (In (Z.of_N n' - Z.of_N n)%Z (offsets s)) as Hi by (apply in_offsets; lia).
      split; [exact Hi|]. rewrite (Hw _ Hi).
      replace (Z.to_N (Z.of_N n + (Z.of_N n' - Z.of_N n))) with n' by lia.
      apply validate_rfc4226_accept; assumption.
  Qed.

  Theorem validate_totp_refuse secret code unix d per s algo :
    10 < s ->
    validate_totp_with hm secret code unix (Some (mkParam d per s algo)) = (Ok (false, Some (ESent ErrInvalidSkew)), O).
  Proof.
    intros Hs. unfold validate_totp_with. cbn [p_skew]. rewrite totp_max_skew_is. cbn [skew_refused].
    apply N.ltb_lt in Hs. rewrite Hs. reflexivity.
  Qed.

  Theorem validate_totp_nil secret code unix :
    validate_totp_with hm secret code unix None = validate_totp_with hm secret code unix (Some (mkParam 6 30 0 0)).
  Proof. reflexivity. Qed.

  (** bounded work: at most 21 derivations for every input whatsoever *)
  Theorem validate_totp_cost secret code unix p : (snd (validate_totp_with hm secret code unix p) <= 21)%nat.
  Proof.
    unfold validate_totp_with. rewrite totp_max_skew_is. cbn [skew_refused].
    set (pp := match p with Some p0 => p0 | None => default_totp_param end).
    destruct (10 <? p_skew pp) eqn:Es; [simpl; lia|]. apply N.ltb_ge in Es.
    destruct (decode_secret secret); try (simpl; lia).
    destruct (time_counter _ _); try (simpl; lia).
    pose proof (totp_loop_cost (offsets (p_skew pp)) code a a0 (p_digits pp) (p_alg pp) O) as H.
    rewrite offsets_length in H. lia.
  Qed.

  Theorem validate_totp_verdict secret code unix p :
    exists k, validate_totp_with hm secret code unix p = (Ok (true, None), k)
           \/ exists e, validate_totp_with hm secret code unix p = (Ok (false, Some e), k).
  Proof.
    unfold validate_totp_with.
    set (pp := match p with Some p0 => p0 | None => default_totp_param end).
    destruct (skew_refused totp_max_skew _); [eexists; right; eexists; reflexivity|].
    destruct (decode_secret secret) as [key|e|] eqn:Hk.
    - assert (exists n, time_counter unix (eff_period totp_val_zero_period (p_period pp)) = Ok n) as [n ->].
      { unfold time_counter, eff_period. change totp_val_zero_period with (Some 30).
        destruct (p_period pp =? 0) eqn:E; [eexists; reflexivity|]. rewrite E. eexists; reflexivity. }
      destruct (totp_loop_spec (offsets (p_skew pp)) code key n (p_digits pp) (p_alg pp) O) as [[_ [k0 Hr]]|[_ [k0 Hr]]];
        rewrite Hr; eexists.
      + left; reflexivity.
      + right; eexists; reflexivity.
    - eexists; right; eexists; reflexivity.
    - exfalso. exact (decode_secret_no_panic _ Hk).
  Qed.
End WithHmac.
